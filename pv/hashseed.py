"""
Render the error text of a batch of (type spec, value) cases in *this* process:

    python -m pv.hashseed < cases.json > texts.json

Used by the C08 check to compare the text a failed conversion renders to under
different PYTHONHASHSEED values (str hashes, and with them the iteration order
of every set of names, differ between interpreter runs): the same type and the
same value must give the same message in every run.
"""

from __future__ import annotations

import json
import os
import subprocess
import sys
import typing as t


def render_batch(cases: t.Sequence[t.Any]) -> t.List[t.Optional[str]]:
    """-> per case: the rendered ConvertError text, or None if the value was accepted / something else happened."""
    import warnings
    warnings.simplefilter('ignore')
    import pane
    from . import tg
    out: t.List[t.Optional[str]] = []
    for case in cases:
        (spec, v) = case[:2]
        try:
            T = tg.node(spec).pytype()
            pane.from_data(v, T)
            out.append(None)
        except pane.ConvertError as e:
            try:
                out.append(str(e))
            except Exception as e2:   # totality is the main suite's business
                out.append(f"<rendering raised {type(e2).__name__}>")
        except Exception:
            out.append(None)
    return out


def render_elsewhere(cases: t.Sequence[t.Any], hashseed: int) -> t.List[t.Optional[str]]:
    """The same batch in a fresh interpreter started with PYTHONHASHSEED=hashseed (same code, same PYTHONPATH)."""
    from . import codec
    env = dict(os.environ)
    env['PYTHONHASHSEED'] = str(hashseed)
    r = subprocess.run([sys.executable, '-m', 'pv.hashseed'], input=codec.dumps(list(cases)), capture_output=True, text=True, env=env,
                       cwd=os.path.dirname(os.path.dirname(os.path.abspath(__file__))), timeout=600)
    if r.returncode != 0:
        from .core import HarnessError
        raise HarnessError(f"pv.hashseed subprocess failed: {r.stderr[-800:]}")
    return json.loads(r.stdout)


def main() -> int:
    from . import codec
    cases = codec.loads(sys.stdin.read())
    json.dump(render_batch(cases), sys.stdout)
    return 0


if __name__ == '__main__':
    sys.exit(main())
