"""python -m pv.ingest_all <worktrees dir> <suffix>: ingest every finished seeded change under <dir>/CNN as CNN-<suffix>,
register it in mutants/TABLE.json (target = its own property) and remove the worktree."""
import json
import os
import subprocess
import sys

ROOT = os.path.dirname(os.path.dirname(os.path.abspath(__file__)))
(base, suffix) = sys.argv[1:3]
tab_p = os.path.join(ROOT, 'mutants', 'TABLE.json')
tab = json.load(open(tab_p))
for d in sorted(os.listdir(base)):
    wt = os.path.join(base, d)
    if not (os.path.isdir(wt) and d.startswith('C') and os.path.exists(os.path.join(wt, 'patch.diff')) and os.path.exists(os.path.join(wt, 'demo.py'))):
        continue
    name = f"{d}-{suffix}"
    if os.path.isdir(os.path.join(ROOT, 'seeded', name)):
        continue
    r = subprocess.run([sys.executable, '-m', 'pv.ingest', wt, name], cwd=ROOT, capture_output=True, text=True)
    ok = 'stored in' in r.stdout
    print(name, 'stored' if ok else 'NOT CONFIRMED: ' + r.stdout.strip().splitlines()[-1][:200] if r.stdout.strip() else 'NOT CONFIRMED')
    if ok:
        tab[f"seeded-{name}"] = {'props': [d]}
        subprocess.run(['git', '-C', '/repo', 'worktree', 'remove', '--force', wt])
json.dump(tab, open(tab_p, 'w'), indent=1)
