"""Regenerate /verif/MANIFEST.json from the per-property table below:  python -m pv.manifest"""

from __future__ import annotations

import json
import os
import importlib

ROOT = os.path.dirname(os.path.dirname(os.path.abspath(__file__)))

BASELINE_OFF = ("cd /repo && /venv/bin/python -m pytest -ra -q -p no:cacheprovider --timeout=900 "
                "--continue-on-collection-errors")

ALL = [f"C{i:02d}" for i in range(1, 21)]

# property id -> (technique, level text, level note, design ref)
CLAIMED = {
    'C01': (
        "Hypothesis type-directed generation (type grammar x construct-then-mutate values) against a reference interpreter (three-valued oracle), with determinism re-evaluation on a fresh equal type",
        "Searches the type-expression x value space with a grammar-based generator and compares every from_data verdict and result "
        "(deep exact-type comparison) with an independent reference interpreter of the documented rules; failures are bucketed by the "
        "smallest failing sub-type; independently of the verdict oracle (also in its unspecified cells) every returned value must be shaped like an "
        "image of T at every depth (pv/typed.py: exactly int where int is declared, list for List, ...), and an accepted instance of a subclass of an interchange "
        "type (user subclass, a str subclass whose __str__ is not its text, mixin enum member; suite subclass-inputs) converts to the plain value it carries. Evidence that the property held on "
        "everything explored, with the class histogram of what was explored. Suite namedtuple: NamedTuple / namedtuple classes (bare, in a list, as a field) x 17 values against hand-written verdicts; convert() of subclassed inputs is judged like from_data. Suite temporal-objects: date / time / datetime objects as data (also out of YAML documents) narrow to the declared part, time zone included.",
        "Trusts the reference interpreter (pv/tg.py, pv/cg.py), stdlib constructors, and the list of unspecified cells in DESIGN.md section 2.",
        "DESIGN.md section 5, C01",
    ),
    'C02': (
        "exhaustive enumeration (itertools.product) of the kind(value) x target type x embedding context matrix (12 contexts, incl. constructor and __replace__ calls that give several fields at once) against a hand-written kind-compatibility table",
        "All cells of 42 value instances (13 kinds) x 59 target types x 12 contexts are evaluated on every run: a value whose kind the "
        "target's family does not admit must raise ConvertError in every context; admitted cells are decided by the reference interpreter. "
        "Exhaustive over this matrix, not over all values. Type variables met unsubstituted (bound to a class, a union, an Optional, a List; constrained) are among the targets. Suite equal-across-kinds: lists of values that are equal across kinds (1, 1.0, True) against set, list and tuple targets. Suite under-stock-handlers: the whole table in five contexts with custom={int:, float:, str:} holding the library's own converters for exactly those types (an entry serves its own type only). Suite default-equal: arguments of another kind that equal the field's default (0.0 for an int field defaulting to 0) on four paths.",
        "Trusts the kind table in pv/props/c02.py (taken from the statement and docs/index.md); bool -> number and ==-matching literal cells are unspecified.",
        "DESIGN.md section 5, C02",
    ),
    'C03': (
        "Hypothesis type-directed generation; model-free differential oracle between the two hand-mirrored passes (try_convert vs collect_errors) at every sub-converter",
        "For every generated (type, value) and every (sub-type, sub-value) reached by walking the value, the fast pass raises "
        "ParseInterrupt iff the diagnostic pass returns an error tree, and convert() never raises the 'bug of the Converter' RuntimeError. "
        "A third suite feeds the condition grammar of C13 (conditions must see the converted value in both passes). "
        "Suite extension-points: a union built with a refusing constructor by a _converter hook, and a default factory that raises; suite equal-across-kinds: both passes on lists of values equal across kinds. Extension points also hold two user sequence types (one whose constructor wants a length, one that validates) and date / time objects of subclasses against the three temporal targets. The evidence lists which converter classes were exercised and how often.",
        "No reference model needed; trusts only the walk of (sub-type, sub-value) pairs in pv/tg.py. User-written converter classes are out of scope.",
        "DESIGN.md section 5, C03",
    ),
    'C04': (
        "Hypothesis type-directed generation with adversarial leaves over five entry points + JSON/YAML readers (exception-class oracle, bucketed by innermost pane frame); exhaustive sweep of unsupported-type forms x wrappers",
        "Every call either returns or raises ConvertError; any other exception is a violation keyed by (exception type, innermost pane frame); values include "
        "numpy arrays and instances of subclasses of interchange types, and YAML documents made of YAML's own scalar kinds (timestamps, sets, binary). "
        "18 unsupported type forms x 11 embedding wrappers are enumerated: make_converter and from_data must raise TypeError/UnsupportedAnnotation "
        "identically for every value; every supported type of the grammar must build. Ill-formed tagged unions (a member without the tag, Optional of a tagged union), bare Annotated and PaneBase itself are among the unsupported forms. Suite raising-hooks: __post_init__, default factories and predicates raising nine kinds of exception on every data path, and a named-tuple subclass whose __new__ raises.",
        "Values are interchange data with ints under 1000 digits. Trusts the classification of type forms into supported/unsupported taken from docs/index.md.",
        "DESIGN.md section 5, C04",
    ),
    'C05': (
        "Hypothesis type-directed generation; round-trip oracle (from_data . into_data = id, re-serialisation stable) + exact-type interchange-only validity predicate; reference interpreter used only to exclude ambiguous untagged unions",
        "For every generated type and value built from it: into_data output is interchange-only (exact concrete types, bool stays bool), "
        "re-parsing it gives the same typed value (modulo excluded fields), re-serialising gives the same data (multiset at set positions), "
        "and the dataclass method agrees with the function; dataclass layout/rename/alias/out_name configurations are generated. "
        "Recorded findings D9 and D73 are reported as KNOWN-FINDING. Suite handled-member: a third-party type served by a custom handler (from the class, its base or the call) round-trips in plain, Optional, Union and container fields. Suite enum-contexts: one enum member read, written and re-read under three of four handler contexts in every order.",
        "Trusts pv/same.py equality and the reference's union-member trace used for the ambiguous-union exclusion; excluded cases are counted in the evidence.",
        "DESIGN.md section 5, C05",
    ),
    'C06': (
        "Hypothesis type-directed generation of typed values (converted and natively built); fixed-point / idempotence oracle on convert and on dataclass constructors",
        "For typed values x of generated types - results of conversions and natively built equivalents (Fraction, Decimal, datetime, paths, "
        "patterns, sets, deques, enum members, dataclass instances, ValueOrList, arrays, pane.types.Range) - convert(x, T) succeeds and is "
        "the same value with the same types, and a dataclass holding a field of type T accepts x unchanged. Known findings D9, D11, D31 "
        "are reported as KNOWN-FINDING. Suite namedtuple: named-tuple values with non-interchange slots (Fraction, date, FrozenSet), a behaviour-only subclass, five positions.",
        "Trusts pv/same.py and the reference's union-member trace for the ambiguous-union exclusion; external/adjacent tagged unions excluded by the statement.",
        "DESIGN.md section 5, C06",
    ),
    'C07': (
        "Hypothesis multi-fault mutation of type-directed values; metamorphic oracle by structural induction (each child tree = the element type's own tree) + class model for missing/extra/duplicate sets",
        "For every rejected generated (type, value): product nodes are keyed by exactly the positions/keys whose element is rejected on its own and "
        "each child equals that element's own tree; missing/extra equal the model's sets; unions report one alternative per built member in order, "
        "each equal to the member's own tree; tagged unions report the selected variant's tree; leaves record the offending sub-value. A second suite "
        "resolves the unspecified python-name-as-key cell by observation: the tree must describe the same key-naming relation the fast path uses. Children of a homogeneous mapping are keyed by the key itself, whatever its kind. The tree of a failure equals (==) the tree of the same failure taken again, also with NaN or arrays in its leaves. A tree which contains itself is reported before anything walks or prints it.",
        "Element trees come from pane itself (composition is what is checked; verdicts are C01's). Trusts pv/errtree.py tree equality and the class model's key tables.",
        "DESIGN.md section 5, C07",
    ),
    'C08': (
        "Hypothesis generation of reachable error trees (multi-fault mutations); totality, determinism and containment oracle over the rendered text",
        "Every error tree reachable from the generator is rendered: rendering returns, is repeatable, a deep copy renders to the same lines, and the "
        "text contains every path component in nesting order followed by each leaf's expectation (a product node that only lacks fields or has unknown keys is a leaf), every missing/unexpected/duplicate name, the "
        "offending value of every leaf outside a sum (one per sum), and the message of every causing exception. Batches of failing conversions are also rendered "
        "in fresh interpreters under two other PYTHONHASHSEED values and must give the same text. A union shows the value the union was given; suite huge-ints renders failures around ints of 4300 to 20001 digits; suite odd-names: missing, unexpected and duplicated field names that are not text; suite duplicates-in-data: a field given under two names is named as a duplicate whatever the two values and the rest of the mapping are (decided from the data, not from the tree).",
        "Containment is substring-in-order, so wording/layout changes are not flagged.",
        "DESIGN.md section 5, C08",
    ),
    'C09': (
        "Hypothesis type-directed generation with recording spy containers; before/after deep-snapshot oracle",
        "For every generated (type, value) of both verdicts, every dict/list in the value is a spy subclass recording mutator calls; a deep "
        "snapshot (types, contents, key order) before must equal the one after from_data, convert, Cls.from_data, keyword and positional "
        "construction, make_unchecked and from_dict_unchecked (defaulted fields left out), and into_data must leave the typed value unchanged; "
        "suite inserting-maps gives every mapping as a defaultdict (lookup inserts) with entries taken away, against struct literals, Dict and dataclass targets; suite variant-converter: a tagged-union variant whose own converter hands out the mapping it holds must find it unchanged after into_data; suite derived-field: from_dict_unchecked and the other construction paths with a __post_init__ that fills in a field; suite instances-in-data: a dataclass instance inside the data (frozen or not, fields assigned since or not) keeps identity, type and set-field record of every field over nine calls.",
        "A mutation through C-level dict/list APIs that bypass subclass methods is seen by the snapshot only.",
        "DESIGN.md section 5, C09",
    ),
    'C10': (
        "Hypothesis stateful testing (RuleBasedStateMachine over build / convert / convert-modify-result-convert-again / temporary-literal / drop / gc / handlers / memo-vs-fresh / 4-thread batch / mass subscription); reference-interpreter oracle per step; second model-based machine for KeyCache",
        "Histories of up to 50 (thorough 120) operations on short-lived type objects; every conversion outcome must equal the reference verdict for "
        "(spec, value) - also after the caller has modified every container of an earlier result -, the memoised converter must behave like one built past the cache, interleaved calls with different call-level handlers must "
        "each follow their own handlers, and KeyCache (unbounded and LRU maxsize 1-4) must always return f(args) and respect maxsize. "
        "Histories are plain data and replay without Hypothesis. Union member order below another union / annotation, in constrained TypeVars and ValueOrList must not follow an equal type written earlier; suite register-after-use: a handler registered after a type was first converted is used from then on (from_data, constructor, __replace__); suite forward-reference: a named tuple converted before the class its slot refers to exists; suite tagged-union-reused: a memoised tagged-union converter recognises variant instances on every use; suite refusal-text: text and tree of 20 refusals, each alone in a fresh interpreter against a fresh interpreter that ran other conversions of the table first.",
        "The harness does not own the thread schedule (stress only) nor the allocator (id-reuse events are measured and reported, not forced).",
        "DESIGN.md section 5, C10",
    ),
    'C11': (
        "Hypothesis generation of overlapping unions; metamorphic oracle against pane's own member conversions (left-most accepting member), spelling-independence, and member-consistent serialisation; reference index cross-check",
        "Unions of 2-5 overlapping members (numeric, text-parsed, subclass-related image types, tagged unions as members, arrays next to literals) in five spellings: the union accepts iff a member accepts, returns exactly the left-most accepting "
        "member's result, every spelling agrees, and into_data uses what a member accepting the typed value writes - a member counts as accepting when its "
        "fast pass recognises the value or its own serialisation reads back as the value; only when no member does is the runtime-type fallback admitted. Suite generic-fields: unions that arrive through a type variable keep the member order of their own parametrization in every field shape.",
        "Member verdicts are pane's own (checked by C01); the reference index is compared only where specified.",
        "DESIGN.md section 5, C11",
    ),
    'C12': (
        "Hypothesis generation of variant sets x three layouts x tag/body/shape mutations; reference implementation of docs/using/tagged.md as oracle, metamorphic body-error oracle, round-trip of the layout; enumeration of duplicate-tag definitions",
        "The variant is decided by the tag alone (instance of the variant whose declared tag equals the data's tag, even when other variants accept the "
        "body), a body error equals the selected variant's own tree, unknown/absent/ill-kinded tags are ConvertErrors naming the tag, duplicate tag values "
        "are refused with TypeError when the converter is built, and into_data writes exactly the layout from_data reads. Variants that override an inherited tag field are refused or dispatched by the tag their instances carry. Suite undeclared-tag-instance: data carrying a tag no variant declares is refused, with the same text, before and after an instance holding that tag was serialised.",
        "Trusts the tagged-union reference in pv/cg.py (TaggedNode). Tags equal to a declared tag but of another type are unspecified.",
        "DESIGN.md section 5, C12",
    ),
    'C13': (
        "Hypothesis generation from a condition-expression grammar with boundary-directed values; independent predicate evaluator as oracle",
        "Condition expressions (stock conditions with generated thresholds, & | ~, Condition.all/any, 1-3 conditions per annotation, user and raising "
        "predicates, shape/broadcastable) over scalar, sized, array and nested inner types, with values at, next to and away from every threshold: "
        "accept iff the inner type accepts and the independent evaluator holds; the value is returned unchanged; a raising predicate yields ConvertError "
        "with a cause; into_data ignores conditions. Pairs of expressions that read alike when flattened but nest differently sit in one type "
        "(each position must enforce its own predicate); the stock conditions x combinators x boundary values table (real and complex values) and the shipped aliases are enumerated; suite custom-annotation places conditions before and after a ConvertAnnotation that is not a condition; suite predicate-answers: answers that are not bools count by their truth, an answer without a truth value (several-element array, raising __bool__) is a failed condition with a cause; suite emptiness: Empty / NonEmpty go by length on arrays and on a container with a __bool__ of its own.",
        "Trusts the evaluator in pv/tg.py (cond_eval, 6-line broadcasting rule) and Python comparison semantics.",
        "DESIGN.md section 5, C13",
    ),
    'C14': (
        "Hypothesis generation of class definitions x supplied-field subsets x construction paths; class-model oracle (reference field images, default/factory freshness, set-field record, hook count)",
        "Generated dataclass definitions are constructed through six paths (keyword, positional, mixed, mapping data, sequence data, make_unchecked); "
        "the instance must match the class model field by field (converted images, defaults, fresh factory products never shared and never the "
        "factory), dict(set_only=True) must equal the supplied names, __post_init__ must run exactly once, and the constructor must agree with from_data by name and by position; on non-frozen classes assigning a field adds exactly that field to the record and a non-field attribute does not enter it.",
        "Trusts the class model in pv/cg.py (computed from the spec, never from __pane_info__). Constructor arguments are plain interchange data.",
        "DESIGN.md section 5, C14",
    ),
    'C15': (
        "Hypothesis generation of class definitions (naming x layout options); per-class exhaustive enumeration of the name/layout decision table against the class model",
        "For every generated class the whole decision table is enumerated (each input name, near-miss and other-style names, duplicates, unknown keys "
        "with/without allow_extra, each required field absent, every sequence length 0..max+1, str/bytes/mapping vs sequence, disabled layouts) and "
        "the output layout, output names and exclusions are compared with the model.",
        "Trusts the class model's name tables (pv/cg.py) and the independent rename renderer; the python-name-as-key cell is unspecified.",
        "DESIGN.md section 5, C15",
    ),
    'C16': (
        "exhaustive enumeration of the 96-point option cube + Hypothesis over per-field flags and instance triples; differential oracle against dataclasses.dataclass for the hash rule table, algebraic laws for ==/order/hash, model oracle for frozen/copy/replace/repr",
        "Every (eq, order, frozen, unsafe_hash, explicit __hash__, user __eq__) point is built both as a pane dataclass and as a standard "
        "dataclass and must land in the same hash category; equality/ordering are checked against the compare-fields model (reflexive, symmetric, "
        "transitive on triples, lexicographic, trichotomy, eq implies equal hash); frozen, copy, deepcopy, __replace__ and repr are checked against the model; "
        "generated hash / modify / copy / set-lookup histories over five legitimately mutable configurations require equal instances to hash equal at every moment. Suite partial-order: float (NaN) / FrozenSet / int fields, the four operators against the lexicographic definition; copy of an instance with an unset init=False field; an instance holding NaN equals itself and its copies; suite frozen-chains: the frozen option along inheritance chains. Suite repr-after-failure: a repr that raised earlier leaves nothing behind.",
        "Trusts the standard library's dataclass hash table as the reference. Field values are totally ordered and NaN-free except in suite partial-order.",
        "DESIGN.md section 5, C16",
    ),
    'C17': (
        "Hypothesis generation of class-hierarchy programs (grammar over levels, overrides, KW_ONLY, options, generic binding/forwarding/permutation/re-declaration); hierarchy model oracle on signature, parameters, field order, substituted-type enforcement, option inheritance",
        "Programs of depth 1-4 are executed with types.new_class; at every level __parameters__ and inspect.signature (names, kinds, annotations "
        "after normalisation, defaults) must equal the model, ill-formed programs must be refused with TypeError; the subscripted leaf must "
        "enforce substituted field types (accept one instantiation's values, refuse another's) and inherit in_format, rename, allow_extra, kw_only, frozen and class-level custom handlers from the nearest definition. Suite union-fields: Union[int, str, T]-shaped fields whose argument repeats a member (five shapes x eight arguments incl. None, subscripted or inherited from) lose the variable, de-duplicate in order and enforce what is left. Suite literal-arguments: Literal arguments that are equal without being the same type (1 / True, 0 / False) give different parametrizations, in either order.",
        "Trusts the hierarchy model in pv/props/c17.py (substitution on a small type AST). Single-inheritance chains only.",
        "DESIGN.md section 5, C17",
    ),
    'C18': (
        "Hypothesis enumeration-by-sampling of subsets of the seven handler sources x call forms x positions x directions; oracle = the documented precedence order coded as a list, observed through source-labelled converters",
        "Every source converts the marker type to a value naming the source; the observed label at each position (direct field, List, Dict, Optional, "
        "Tuple, nested dataclass, subclass, top-level container, inside a third-party generic container served by a registered handler, untyped positions on output) and in three directions (from_data, into_data, construction of the containing class) must be the first present source in the documented order; "
        "declining handlers (NotImplemented / NotImplementedError) are skipped; mapping-form handlers match only the exact unparameterised type; "
        "global handlers sit after the scalar built-ins and the protocol, before structural built-ins. Also: construction of the enclosing class (ctor-outer) and __replace__ on it (replace-outer), converters that read the data form only (strict) on output through unions, a handler for the type of an enum's values in both directions, reader-only converters at depth 0, one handler object in two roles, three nesting levels sharing handler objects.",
        "A fresh marker class per case keeps the converter cache out of the picture; one global dispatcher is registered per process.",
        "DESIGN.md section 5, C18",
    ),
    'C19': (
        "Hypothesis type-directed generation x sink/source kinds x formatting options; file round-trip oracle with the in-memory round trip as precondition, stream-ownership observation by wrapping pane.io.open",
        "Typed values whose serialised form the format can represent are written through every sink (Path, str path, caller stream, caller-opened file, "
        "dataclass method returning a string / writing a stream) under generated options and read back through every source (stream, Path, str path, "
        "dataclass classmethods); the value read must be the same, functions and methods must agree, from_yaml_all must return one value per document, "
        "caller streams must stay open, files pane opens must be closed and opened as UTF-8. Suite scalar-documents: enum members and scalar-subclass instances as whole documents, written with and without ty=; suite lookalike-strings (text every YAML resolver would read as a number / bool / date); suite yaml-all-member-order.",
        "Trusts json / PyYAML; text PyYAML itself cannot round-trip is excluded and counted. NaN excluded.",
        "DESIGN.md section 5, C19",
    ),
    'C20': (
        "exhaustive enumeration of a finite name set + Hypothesis search, against an independent canonical renderer",
        "Every 1-3 word name over a 3-letter alphabet (47 988 names) is swept exhaustively through all 5 styles and all 25 style "
        "pairs, including injectivity per style; longer names, names over Latin-1 / Cyrillic / Greek letters with a one-to-one case mapping, ill-formed names and the dataclass-level observations (fields with aliases= / in_names= among them; dict(rename=) also with set_only=True) are searched "
        "with Hypothesis. Held-on-everything-explored, not a proof for all identifiers.",
        "Trusts the 3-line reference renderer in pv/props/c20.py and Python's str methods; letters whose case mapping is not one-to-one (sharp s, dotless i, Greek sigma) are outside the domain.",
        "DESIGN.md section 5, C20",
    ),
}

NOT_YET = "check not built yet in this revision of /verif (planned in DESIGN.md section 5)"


def build() -> dict:
    checks = []
    na = []
    for pid in ALL:
        if pid in CLAIMED and os.path.exists(os.path.join(ROOT, 'pv', 'props', f'{pid.lower()}.py')):
            (tech, text, note, ref) = CLAIMED[pid]
            checks.append({
                'property_id': pid,
                'quick_cmd': f"./check {pid} quick",
                'thorough_cmd': f"./check {pid} thorough",
                'evidence_file': f"evidence/{pid}.json",
                'replay_cmd_template': f"./check {pid} --replay {{path}}",
                'engine': 'pv',
                'level_claimed': {'category': 'exploration', 'text': text, 'design_ref': ref},
                'level_note': note,
                'technique': tech,
            })
        else:
            na.append({'property_id': pid, 'reason': NOT_YET})
    return {
        'version': 1,
        'setup_cmd': './setup.sh',
        'hooks': {
            'guard': 'PANE_VERIF',
            'enable': 'no hooks are needed: every observation point is a public call; checks import /repo (editable install) directly',
            'baseline_off_cmd': BASELINE_OFF,
            'source_commits': [],
            'add_only': True,
        },
        'engines': [{
            'name': 'pv', 'path': 'pv/',
            'serves_properties': [c['property_id'] for c in checks],
            'kind_free_text': 'Hypothesis 6.168 property-based search + exhaustive sweeps over finite sub-domains, '
                              '16 worker processes, collect-then-shrink failure bucketing, JSON replay files',
        }],
        'checks': checks,
        'not_applicable': na,
        'notes': 'Run ./check <ID> quick|thorough from /verif; exit 0 held, 1 VIOLATION, 2 harness error. '
                 'KNOWN_FINDINGS.txt lists recorded findings and fixed defects.',
    }


if __name__ == '__main__':
    m = build()
    with open(os.path.join(ROOT, 'MANIFEST.json'), 'w') as f:
        json.dump(m, f, indent=1)
    print(f"MANIFEST.json: {len(m['checks'])} checks, {len(m['not_applicable'])} not_applicable")
