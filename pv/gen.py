"""
The shared conversion generator: (type spec, value) where the value is built
*from the type* (a value the type should accept) and then mutated zero to two
times at a random position.  The verdict of the result is never assumed; the
reference interpreter decides it.
"""

from __future__ import annotations

import collections
import types
import typing as t

from hypothesis import strategies as st

from . import tg, cg
from .codec import MySeq, MyMap

def _np() -> t.Any:
    import numpy
    return numpy


# numpy arrays are declared interchange data; `array == x` and `array in (...)` do not give a bool
_ARRAYS: t.Dict[str, t.Callable[[], t.Any]] = {
    'arr-int': lambda: _np().array([1, 2]), 'arr-str': lambda: _np().array(['a', 'x']), 'arr-0d': lambda: _np().array(1),
    'arr-empty': lambda: _np().array([]), 'arr-2d': lambda: _np().array([[1, 0], [0, 1]]),
}

ADVERSARIAL = ['1/0', 'a{4294967296}', '(', 'NaN', '2023-13-45', '\x00', 'x' * 40, '١٢٣', ' ', '0' * 30, '+', '1e999', '--1']
WRONG_KIND = st.one_of(
    tg.scalars,
    st.sampled_from(ADVERSARIAL),
    st.sampled_from([10**400, -10**400, 2**64]),
    st.just([]), st.just({}), st.just(()), st.just([5]), st.just({'0': 5}), st.just([[]]), st.just({'tag': [1]}),
    st.just(MySeq()), st.just(MyMap()), st.just(range(2)),
    st.sampled_from(['arr-int', 'arr-str', 'arr-0d', 'arr-empty', 'arr-2d']).map(lambda k: _ARRAYS[k]()),
)


def respellings(k: t.Any) -> t.List[t.Any]:
    """Other interchange values that parse-from-text scalar types (Decimal, Fraction, paths, dates, ...) map to the same typed value as ``k``."""
    out: t.List[t.Any] = []
    if isinstance(k, bool):
        return out
    if isinstance(k, int):
        out += [str(k), f"{k}.0", f"{k}/1", f" {k} "]
    elif isinstance(k, float):
        if k == k and abs(k) != float('inf'):
            out += [repr(k), repr(k) + '0' if '.' in repr(k) and 'e' not in repr(k) else repr(k)]
            if k == int(k) and abs(k) < 1e15:
                out += [str(int(k))]
    elif isinstance(k, str):
        st_ = k.strip()
        if st_ and st_.lstrip('+-').replace('.', '', 1).isdigit():
            out += [k + '0' if '.' in k else k + '.0', '0' + k if k[0].isdigit() else k, ' ' + k, k + ' ', k + 'e0' if 'e' not in k.lower() else k]
            try:
                out.append(int(k))
            except ValueError:
                pass
        if '/' in k:
            (a, _, b) = k.partition('/')
            if a.strip().lstrip('+-').isdigit() and b.strip().isdigit():
                out += [f"{int(a) * 2}/{int(b) * 2}"]
            out += [k.replace('/', '//', 1), k + '/', k.replace('/', '/./', 1)]
        elif k and all(c.isalnum() or c in '._' for c in k):
            out += ['./' + k, k + '/', k + '/.']
        if len(k) == 10 and k[4] == '-' and k[7] == '-':
            out += [k.replace('-', ''), k + 'T00:00:00', k + ' 00:00:00']
        if len(k) >= 19 and k[10:11] in ('T', ' '):
            out += [k[:10] + (' ' if k[10] == 'T' else 'T') + k[11:], k + '.000000' if '.' not in k and '+' not in k and 'Z' not in k else k]
        if len(k) == 8 and k[2] == ':' and k[5] == ':':
            out += [k + '.000', 'T' + k, k.replace(':', '')]
    return [a for a in dict.fromkeys(out) if not (type(a) is type(k) and a == k)]


def _rebuild_seq(v: t.Any, items: t.List[t.Any]) -> t.Any:
    if isinstance(v, tuple):
        return tuple(items)
    if isinstance(v, MySeq):
        return MySeq(items)
    return list(items)


def _rebuild_map(v: t.Any, items: t.List[t.Tuple[t.Any, t.Any]]) -> t.Any:
    if isinstance(v, MyMap):
        return MyMap(items)
    if isinstance(v, collections.defaultdict):
        return collections.defaultdict(v.default_factory, items)
    if isinstance(v, collections.OrderedDict):
        return collections.OrderedDict(items)
    if isinstance(v, types.MappingProxyType):
        return types.MappingProxyType(dict(items))
    return dict(items)


def mutate(draw: t.Any, v: t.Any, names: t.Sequence[str], depth: int = 0) -> t.Any:
    """One mutation at a random position of ``v``."""
    seq = tg.is_seq(v) and not isinstance(v, range)
    mp = tg.is_map(v)
    if (seq or mp) and len(v) > 0 and depth < 6 and draw(st.integers(0, 3)) > 0:
        # descend
        if seq:
            items = list(v)
            i = draw(st.integers(0, len(items) - 1))
            items[i] = mutate(draw, items[i], names, depth + 1)
            return _rebuild_seq(v, items)
        pairs = list(v.items())
        i = draw(st.integers(0, len(pairs) - 1))
        (k, x) = pairs[i]
        pairs[i] = (k, mutate(draw, x, names, depth + 1))
        return _rebuild_map(v, pairs)
    ops = ['replace', 'replace', 'array']
    if seq:
        ops += ['drop', 'dup', 'append', 'to_str', 'to_map', 'reshape']
        if len(v) > 0 and all(type(x) in (int, float, bool) for x in v):
            ops += ['to_array']
    twins: t.List[t.Tuple[str, str]] = []
    if mp:
        twins = [(k, alt) for k in v if isinstance(k, str) for g in getattr(names, 'groups', ()) if k in g for alt in g if alt != k and alt not in v]
        if twins:
            ops += ['dupfield', 'dupfield']
    if mp:
        ops += ['dropkey', 'addkey', 'addkey', 'renamekey', 'to_items', 'reshape', 'badkey', 'inserting-drop', 'respell-key']
    if isinstance(v, str):
        ops += ['to_chars', 'to_bytes', 'to_sub', 'to_sub', 'to_sub']
    if isinstance(v, bool):
        ops += ['to_int']
    elif isinstance(v, int):
        ops += ['to_float', 'to_str_num', 'to_bool', 'to_sub']
    elif isinstance(v, float):
        ops += ['to_str_num', 'to_sub']
    elif type(v) is bytes:
        ops += ['to_sub']
    op = draw(st.sampled_from(ops))
    if op == 'replace':
        return draw(WRONG_KIND)
    if op == 'array':
        return _ARRAYS[draw(st.sampled_from(sorted(_ARRAYS)))]()
    if op == 'drop':
        items = list(v)
        if items:
            items.pop(draw(st.integers(0, len(items) - 1)))
        return _rebuild_seq(v, items)
    if op == 'dup':
        items = list(v)
        if items:
            i = draw(st.integers(0, len(items) - 1))
            items.insert(i, items[i])
        return _rebuild_seq(v, items)
    if op == 'append':
        return _rebuild_seq(v, [*v, draw(tg.scalars)])
    if op == 'to_array':
        # numpy arrays are declared interchange data; comparing one with == does not give a bool
        import numpy
        return numpy.array(list(v))
    if op == 'to_str':
        return draw(st.sampled_from(['', 'xy', 'ab'])) if draw(st.booleans()) else draw(st.sampled_from([b'', b'xy', bytearray(b'ab')]))
    if op == 'to_map':
        return {i: x for (i, x) in enumerate(v)} if draw(st.booleans()) else {str(i): x for (i, x) in enumerate(v)}
    if op == 'reshape':
        if seq:
            kind = draw(st.sampled_from(['list', 'tuple', 'myseq']))
            return {'list': list, 'tuple': tuple, 'myseq': MySeq}[kind](list(v))
        kind = draw(st.sampled_from(['dict', 'mymap', 'odict', 'proxy', 'ddict']))
        items = list(v.items())
        if kind == 'ddict':
            return collections.defaultdict(draw(st.sampled_from([list, int, dict])), items)
        if kind == 'mymap':
            return MyMap(items)
        if kind == 'odict':
            return collections.OrderedDict(items)
        if kind == 'proxy':
            return types.MappingProxyType(dict(items))
        return dict(items)
    if op == 'inserting-drop':
        # a mapping whose lookup inserts missing keys (defaultdict), with one key taken away: a converter that indexes
        # instead of testing membership invents the value and changes the caller's data
        pairs = list(v.items())
        if pairs:
            pairs.pop(draw(st.integers(0, len(pairs) - 1)))
        return collections.defaultdict(draw(st.sampled_from([int, list, str, dict])), pairs)
    if op == 'dupfield':
        # a second key naming a field that is already given (alias / renamed form / python name): on its own a duplicate-key error
        (k, alt) = twins[draw(st.integers(0, len(twins) - 1))]
        pairs = list(v.items())
        pairs.insert(draw(st.integers(0, len(pairs))), (alt, v[k] if draw(st.booleans()) else draw(tg.scalars)))
        return _rebuild_map(v, pairs)
    if op == 'respell-key':
        # a second key that is a different piece of data but (for parse-from-text key types) denotes the same typed key:
        # the two converted keys collide.  Which entry survives is unspecified; that conversion stays total and the two passes agree is not.
        pairs = list(v.items())
        if pairs:
            (k, x) = pairs[draw(st.integers(0, len(pairs) - 1))]
            alts = [a for a in respellings(k) if a not in v]
            if alts:
                a = draw(st.sampled_from(alts))
                other = draw(st.one_of(st.just(x), st.sampled_from([y for (_, y) in pairs])))
                if draw(st.booleans()):
                    pairs.append((a, other))
                else:
                    pairs.insert(0, (a, other))
        return _rebuild_map(v, pairs)
    if op == 'dropkey':
        pairs = list(v.items())
        if pairs:
            pairs.pop(draw(st.integers(0, len(pairs) - 1)))
        return _rebuild_map(v, pairs)
    if op == 'addkey':
        pool = [*names, 'zz', 'extra'] if names else ['zz', 'extra', 'x']
        k = draw(st.sampled_from(pool))
        pairs = [(a, b) for (a, b) in v.items()]
        val = draw(st.one_of(tg.scalars, st.sampled_from([x for (_, x) in pairs]) if pairs else tg.scalars))
        if draw(st.booleans()):
            pairs.append((k, val))
        else:
            pairs.insert(0, (k, val))
        return _rebuild_map(v, pairs)
    if op == 'renamekey':
        pairs = list(v.items())
        if pairs:
            i = draw(st.integers(0, len(pairs) - 1))
            pool = [*names, 'zz'] if names else ['zz']
            pairs[i] = (draw(st.sampled_from(pool)), pairs[i][1])
        return _rebuild_map(v, pairs)
    if op == 'badkey':
        pairs = list(v.items())
        pairs.append((draw(st.sampled_from([0, None, 1.5, b'k', ('t',), True])), draw(tg.scalars)))
        return _rebuild_map(v, pairs)
    if op == 'to_items':
        return [[k, x] for (k, x) in v.items()] if draw(st.booleans()) else list(v.values())
    if op == 'to_sub':
        # an instance of a *subclass* of the interchange type (user subclass, mixin enum member): whether it is accepted is not
        # documented, but whatever comes back must be exactly typed (int, not MyInt or an IntEnum member)
        from . import usertypes as U
        if type(v) is str and draw(st.integers(0, 2)) == 2:
            return U.LoudStr(v)      # its __str__ is not its text
        if type(v) in (int, float, str, bytes) and draw(st.booleans()):
            return {int: U.MyInt, float: U.MyFloat, str: U.MyStr, bytes: U.MyBytes}[type(v)](v)
        pool = {int: [U.IE.P, U.IE0.ZERO, U.IE0.ONE], float: [U.FE0.NIL, U.FE0.HALF], str: [U.SE.RED, U.SE0.EMPTY, U.SE0.A]}.get(type(v))
        return draw(st.sampled_from(pool)) if pool else v
    if op == 'to_chars':
        return list(v)
    if op == 'to_bytes':
        return v.encode('utf-8', 'replace')
    if op == 'to_int':
        return int(v)
    if op == 'to_float':
        try:
            return float(v)
        except OverflowError:
            return 1e308
    if op == 'to_bool':
        return bool(v)
    if op == 'to_str_num':
        return repr(v)
    return v


def reshape_all(draw: t.Any, v: t.Any, depth: int = 0) -> t.Any:
    """Validity-preserving: swap container concrete types for other interchange containers (values only, not keys)."""
    if depth > 5:
        return v
    if tg.is_seq(v) and not isinstance(v, range):
        items = [reshape_all(draw, x, depth + 1) for x in v]
        kind = draw(st.sampled_from(['same', 'same', 'list', 'tuple', 'myseq']))
        if kind == 'same':
            return _rebuild_seq(v, items)
        return {'list': list, 'tuple': tuple, 'myseq': MySeq}[kind](items)
    if tg.is_map(v):
        pairs = [(k, reshape_all(draw, x, depth + 1)) for (k, x) in v.items()]
        kind = draw(st.sampled_from(['same', 'same', 'dict', 'mymap', 'odict', 'proxy', 'ddict']))
        if kind == 'same':
            return _rebuild_map(v, pairs)
        if kind == 'ddict':
            # a mapping whose __getitem__ *inserts* missing keys: a converter must test membership, not index blindly
            return collections.defaultdict(draw(st.sampled_from([list, int, dict])), pairs)
        if kind == 'mymap':
            return MyMap(pairs)
        if kind == 'odict':
            return collections.OrderedDict(pairs)
        if kind == 'proxy':
            return types.MappingProxyType(dict(pairs))
        return dict(pairs)
    return v


def field_type_specs(max_leaves: int = 3) -> st.SearchStrategy[t.Any]:
    return tg.type_specs(max_leaves)


def all_type_specs(max_leaves: int = 4, *, top: bool = True, with_classes: bool = True) -> st.SearchStrategy[t.Any]:
    """The whole grammar: typing types, dataclasses (with nested dataclass fields), tagged unions, literals at top."""
    classes = None
    if with_classes:
        inner_cls = cg.class_specs(tg.type_specs(2), max_fields=3)
        ftypes = st.one_of(tg.type_specs(max(2, max_leaves - 1)), tg.type_specs(2, classes=inner_cls))
        classes = st.one_of(cg.class_specs(ftypes), cg.class_specs(ftypes), cg.tagged_specs(tg.type_specs(2)))
    extra = None
    try:
        from . import npn
        extra = npn.nd_specs()
    except ImportError:
        pass
    base = tg.top_specs(max_leaves, classes, extra) if top else tg.type_specs(max_leaves, classes, extra)
    if classes is not None:
        # dataclasses and tagged unions are central to most properties: a third of all roots
        return st.one_of(base, base, classes)
    return base


@st.composite
def conv_cases(draw, specs: st.SearchStrategy[t.Any]) -> t.Any:
    """-> [type spec, value, how]"""
    spec = draw(specs)
    nd = tg.node(spec)
    mode = draw(st.sampled_from(MODES))
    if mode == 'arbitrary':
        return [spec, draw(tg.data_values(5)), 'arbitrary']
    v = draw(nd.valid())
    if draw(st.booleans()):
        v = reshape_all(draw, v)
    if mode == 'valid' and draw(st.integers(0, 5)) == 5:
        return [spec, _subclassify(draw, v), 'subclassed']
    if mode == 'mutated':
        names = nd.names()
        v = mutate(draw, v, names)
        if draw(st.integers(0, 2)) == 2:
            v = mutate(draw, v, names)
        return [spec, v, 'mutated']
    return [spec, v, 'valid']


def _subclassify(draw: t.Any, v: t.Any, depth: int = 0) -> t.Any:
    """Scalars (values, not mapping keys) become instances of subclasses of their type: user subclasses, a str subclass whose
    __str__ is not its text, mixin enum members.  Whether such an instance is accepted is unspecified; what it converts to is not."""
    from . import usertypes as U
    if depth > 5:
        return v
    if tg.is_seq(v) and not isinstance(v, range):
        return _rebuild_seq(v, [_subclassify(draw, x, depth + 1) for x in v])
    if tg.is_map(v):
        return _rebuild_map(v, [(k, _subclassify(draw, x, depth + 1)) for (k, x) in v.items()])
    if type(v) in (int, float, str, bytes) and (type(v) is str or draw(st.booleans())):
        kind = draw(st.integers(0, 3))
        if type(v) is str and kind in (0, 2):
            return U.LoudStr(v)
        if kind == 1:
            pool = {int: [U.IE.P, U.IE0.ZERO, U.IE0.ONE], float: [U.FE0.NIL, U.FE0.HALF], str: [U.SE.RED, U.SE0.EMPTY, U.SE0.A]}.get(type(v))
            if pool:
                return draw(st.sampled_from(pool))
        return {int: U.MyInt, float: U.MyFloat, str: U.MyStr, bytes: U.MyBytes}[type(v)](v)
    return v


def _insertify(draw: t.Any, v: t.Any, depth: int = 0) -> t.Any:
    """Every mapping becomes a defaultdict (its lookup *inserts* absent keys); about half of them lose one entry."""
    if depth > 5:
        return v
    if tg.is_seq(v) and not isinstance(v, range):
        return _rebuild_seq(v, [_insertify(draw, x, depth + 1) for x in v])
    if tg.is_map(v):
        pairs = [(k, _insertify(draw, x, depth + 1)) for (k, x) in v.items()]
        if pairs and draw(st.booleans()):
            pairs.pop(draw(st.integers(0, len(pairs) - 1)))
        return collections.defaultdict(draw(st.sampled_from([int, list, str, dict, float])), pairs)
    return v


@st.composite
def subclassed_cases(draw, specs: st.SearchStrategy[t.Any]) -> t.Any:
    """-> [type spec, value, 'subclassed']: valid data whose scalars are instances of subclasses of their types."""
    spec = draw(specs)
    v = draw(tg.node(spec).valid())
    if draw(st.booleans()):
        v = reshape_all(draw, v)
    return [spec, _subclassify(draw, v), 'subclassed']


@st.composite
def inserting_cases(draw, specs: st.SearchStrategy[t.Any]) -> t.Any:
    """-> [type spec, value, 'inserting']: valid data in which the mappings are defaultdicts, some with an entry taken away."""
    spec = draw(specs)
    v = _insertify(draw, draw(tg.node(spec).valid()))
    return [spec, v, 'inserting']


# Hypothesis favours the first alternatives of a choice; order and multiplicity set the mix (~50/40/10)
MODES = ['mutated', 'valid', 'mutated', 'valid', 'mutated', 'valid', 'mutated', 'arbitrary', 'valid', 'arbitrary']


def render_case(case: t.Any) -> t.Any:
    from .codec import short
    (spec, v, how) = case[:3]
    try:
        ty = tg.node(spec).render()
    except Exception as e:
        ty = f"<unrenderable spec: {e}>"
    return {'type': ty, 'value': short(v, 200), 'how': how}


# ---- focused pools (regions of the type space where defects cluster; found by the seeded changes and the repaired defects) ----

def overlap_union_specs() -> st.SearchStrategy[t.Any]:
    """Untagged unions whose members overlap (same runtime type, parse-from-string scalars next to str, mixin enums next to their base)."""
    from .props.c11 import FAMILIES
    S = lambda n: ('s', n)  # noqa: E731
    sc = st.sampled_from([S('int'), S('float'), S('str'), S('bool'), S('Fraction'), S('Decimal'), ('enum', 'SE'), ('enum', 'IE0'), ('enum', 'SE0')])
    same_container = st.lists(sc, min_size=2, max_size=3, unique_by=repr).flatmap(lambda ms: st.sampled_from([
        ('union', 'Union', tuple(('seq', 'List', m) for m in ms)),
        ('union', 'Union', tuple(('map', 'Dict', S('str'), m) for m in ms)),
        ('union', 'Union', tuple(('seq', 'TupleVar', m) for m in ms)),
        ('union', 'Union', tuple(('seq', 'Set', m) for m in ms)),
    ]))
    fam = st.sampled_from(sorted(FAMILIES) + ['temporal', 'temporal', 'subtyped', 'tagged']).flatmap(
        lambda f: st.lists(st.sampled_from(FAMILIES[f]), min_size=2, max_size=4, unique_by=repr)).map(lambda ms: ('union', 'Union', tuple(ms)))
    # a base type listed before a type whose values are also instances of it: the earlier member sees the later one's values on output
    base_then_sub = st.sampled_from([
        (S('date'), S('datetime')), (S('time'), S('datetime')), (S('date'), S('str'), S('datetime')), (S('int'), S('bool')), (S('int'), ('enum', 'IE')),
        (S('str'), ('enum', 'SE')), (S('PurePosixPath'), S('Path')), (S('float'), ('sub', 'float')), (S('int'), ('sub', 'int')), (S('str'), ('sub', 'str')),
        (('map', 'Dict', S('str'), S('int')), ('map', 'OrderedDict', S('str'), S('int'))), (('map', 'Dict', S('str'), S('int')), ('map', 'Counter', S('str'))),
    ]).map(lambda ms: ('union', 'Union', tuple(ms)))
    union = st.one_of(same_container, fam, fam, base_then_sub)
    holder = union.map(lambda u: ('cls', {'fields': [{'name': 'x', 'type': u}, {'name': 'y', 'type': ('seq', 'List', u), 'default': ['factory', []]}], 'opts': {}}))
    return st.one_of(union, union, holder, union.map(lambda u: ('seq', 'List', u)), union.map(lambda u: ('map', 'Dict', S('str'), u)))


def hash_hostile_specs() -> st.SearchStrategy[t.Any]:
    """Mappings / sets whose converted keys or elements may be unhashable or refuse to hash (Decimal('sNaN'), nested lists under Any)."""
    S = lambda n: ('s', n)  # noqa: E731
    k = st.sampled_from([S('Decimal'), S('float'), S('Fraction'), S('any'), ('tup', 'Tuple', (S('Decimal'), S('int'))), ('seq', 'TupleVar', S('Decimal')),
                         ('seq', 'frozenset', S('Decimal')), ('union', 'Union', (S('Decimal'), S('str')))])
    v = st.sampled_from([S('int'), S('any'), S('str')])
    from . import npn
    arrays = st.one_of(npn.nd_specs(), npn.nd_specs().map(lambda a: ('seq', 'List', a)), npn.nd_specs().map(lambda a: ('union', 'Union', (a, S('int')))),
                       npn.nd_specs().map(lambda a: ('map', 'Dict', S('str'), a)))
    return st.one_of(
        arrays,
        st.tuples(st.just('map'), st.sampled_from(['Dict', 'dict', 'Mapping', 'OrderedDict', 'DefaultDict']), k, v),
        st.tuples(st.just('map'), st.just('Counter'), k),
        st.tuples(st.just('seq'), st.sampled_from(['Set', 'FrozenSet', 'set', 'MutableSet']), k),
        st.sampled_from([('seq', 'set_bare'), ('seq', 'frozenset_bare'), ('map', 'dict_bare'), ('map', 'Counter_bare')]),
    )
