"""
Class-definition grammar and class model.

A class spec is plain data (see ``class_specs``); ``ClsNode`` builds the pane
dataclass with ``type(name, bases, ns, **opts)`` and, independently, computes
the *model* from the spec alone: effective field order, positional bounds,
input names and output name of every field under every naming option, the
enabled layouts, and the reference verdict for mapping and sequence data.
Nothing here reads ``__pane_info__`` or anything else pane computed.
"""

from __future__ import annotations

import copy
import dataclasses
import hashlib
import json
import keyword
import typing as t

from hypothesis import strategies as st

from . import codec
from .tg import Node, Acc, Rej, Unspec, Verdict, combine, is_seq, is_map, node, Lit, plainify

STYLES = ('snake', 'scream', 'kebab', 'camel', 'pascal')


def style_name(name: str, style: str) -> str:
    """Independent renderer of a snake_case python name in a rename style (see the C20 check)."""
    words = name.split('_')
    cap = [w[:1].upper() + w[1:] for w in words]
    return {
        'snake': '_'.join(words), 'scream': '_'.join(w.upper() for w in words), 'kebab': '-'.join(words),
        'camel': words[0] + ''.join(cap[1:]), 'pascal': ''.join(cap),
    }[style]


@dataclasses.dataclass(eq=False)
class Inst:
    """Reference image of a dataclass instance."""
    cls: 'ClsNode'
    values: t.Dict[str, t.Any]
    set_fields: t.Set[str]

    # images of (frozen) dataclass instances may be set elements and mapping keys: equal by class and field images
    def __eq__(self, other: t.Any) -> bool:
        return isinstance(other, Inst) and self.cls.key == other.cls.key and self.values == other.values

    def __hash__(self) -> int:
        return hash((self.cls.key, tuple(sorted(self.values))))


class PostInitBoom(ValueError):
    pass


def materialise(img: t.Any) -> t.Any:
    """Reference image -> real Python objects (dataclass instances built with make_unchecked, ValueOrList, containers)."""
    import collections
    from .tg import VolImage
    if isinstance(img, Inst):
        cls = img.cls.pytype()
        # (only the fields the image records as given: a validation hook may look at the record of set fields)
        kw = {k: materialise(v) for (k, v) in img.values.items() if k in {f.name for f in img.cls.fields if f.init} and k in img.set_fields}
        return cls.make_unchecked(**kw)
    if isinstance(img, VolImage):
        from pane.types import ValueOrList
        return ValueOrList(materialise(img.inner), img.is_val)
    ty = type(img)
    if ty in (list, tuple, set, frozenset):
        return ty(materialise(x) for x in img)
    if ty is collections.deque:
        return collections.deque(materialise(x) for x in img)
    if ty is collections.defaultdict:
        return collections.defaultdict(None, {materialise(k): materialise(v) for (k, v) in img.items()})
    if ty in (dict, collections.OrderedDict, collections.Counter):
        return ty({materialise(k): materialise(v) for (k, v) in img.items()})
    return img


@dataclasses.dataclass
class F:
    """One field of the model."""
    name: str
    node: Node
    default: t.Any            # None | ('value', data) | ('factory', data)
    kw_only: bool
    init: bool
    exclude: bool
    in_names: t.Tuple[str, ...]
    out_name: str
    repr: bool = True
    compare: bool = True

    def has_default(self) -> bool:
        return self.default is not None


_CLASS_CACHE: t.Dict[str, t.Any] = {}
POST_COUNTS: t.Dict[str, int] = {}   # class key -> number of __post_init__ calls (classes with 'count_post')
FRESH = [False]   # when set, build() makes a brand-new class object (determinism / history checks)
_DEFAULT_CACHE: t.Dict[t.Tuple[str, str], t.Any] = {}


def _norm(x: t.Any) -> t.Any:
    if isinstance(x, tuple):
        return [_norm(y) for y in x]
    if isinstance(x, list):
        return [_norm(y) for y in x]
    if isinstance(x, dict) and all(isinstance(k, str) for k in x):
        return {k: _norm(v) for (k, v) in x.items()}
    return x


def spec_key(spec: t.Any) -> str:
    # the codec keeps tuple / list apart: data inside a spec (defaults, hook operands) differs by that
    return hashlib.sha1(codec.dumps(spec).encode()).hexdigest()[:10]


_GBOX: t.List[t.Any] = []


def gbox() -> t.Any:
    """One generic pane dataclass for the whole process: class GBox(PaneBase, Generic[T]): value: T.  Its parametrizations
    GBox[int], GBox[float], ... are different types with one unparametrized class behind them."""
    if not _GBOX:
        import pane
        import types as _types
        GT = t.TypeVar('GT')
        _GBOX.append(_types.new_class('GBox', (pane.PaneBase, t.Generic[GT]), {}, lambda ns: ns.update({'__annotations__': {'value': GT}, '__module__': 'pv.generated'})))
    return _GBOX[0]


def _has_structured(n: Node) -> bool:
    return any(x.kind in ('dataclass', 'tagged', 'ValueOrList', 'ndarray') for x in n.walk())


class ClsNode(Node):
    kind = 'dataclass'
    hashable = False

    def __init__(self, spec):
        super().__init__(spec)
        cs: t.Dict[str, t.Any] = spec[1]
        self.cs = cs
        self.key = spec_key(cs)
        self.name: str = cs.get('name') or f"K{self.key[:6]}"
        opts = dict(cs.get('opts') or {})
        self.opts = opts
        self.in_format: t.Tuple[str, ...] = tuple(opts.get('in_format') or ('struct',))
        self.out_format: str = opts.get('out_format') or 'struct'
        self.allow_extra: bool = bool(opts.get('allow_extra', False))
        in_rename: t.Optional[t.Tuple[str, ...]] = None
        out_rename: t.Optional[str] = None
        if opts.get('rename'):
            in_rename = (opts['rename'],)
            out_rename = opts['rename']
        else:
            if opts.get('in_rename'):
                ir = opts['in_rename']
                in_rename = (ir,) if isinstance(ir, str) else tuple(ir)
            out_rename = opts.get('out_rename')
        self.in_rename, self.out_rename = in_rename, out_rename
        kwm = cs.get('kw_marker')
        declared: t.List[F] = []
        for (i, fs) in enumerate(cs['fields']):
            name = fs['name']
            naming = fs.get('naming')
            renamed = tuple(style_name(name, s) for s in in_rename) if in_rename else ()
            if naming is None:
                in_names = renamed if in_rename else (name,)
            elif naming[0] == 'rename':
                in_names = (naming[1],)
            elif naming[0] == 'aliases':
                in_names = tuple(dict.fromkeys((name, *renamed, *naming[1])))
            else:
                in_names = tuple(naming[1])
            if fs.get('out_name') is not None:
                out_name = fs['out_name']
            elif naming is not None and naming[0] == 'rename':
                out_name = naming[1]
            else:
                out_name = style_name(name, out_rename) if out_rename else name
            kw = bool(fs.get('kw_only')) or bool(opts.get('kw_only')) or (kwm is not None and i >= kwm)
            d = fs.get('default')
            declared.append(F(name, node(fs['type']), tuple(d) if d else None, kw, bool(fs.get('init', True)),
                              bool(fs.get('exclude', False)), in_names, out_name,
                              bool(fs.get('repr', True)), bool(fs.get('compare', True))))
        self.declared = declared
        self.fields: t.List[F] = [f for f in declared if not f.kw_only] + [f for f in declared if f.kw_only]
        pos = [f for f in self.fields if f.init and not f.kw_only]
        self.max_len = len(pos)
        self.min_len = 0
        for (i, f) in enumerate(pos):
            if not f.has_default():
                self.min_len = i + 1
        self.pos = pos
        self.post = tuple(cs['post']) if cs.get('post') else None
        self._post_img: t.Any = None
        self.by_key: t.Dict[str, t.Tuple[F, bool]] = {}   # input key -> (field, specified?)
        for f in self.fields:
            if not f.init:
                continue
            if f.name not in f.in_names:
                self.by_key[f.name] = (f, False)          # python name when not configured: unspecified cell
        for f in self.fields:
            if not f.init:
                continue
            for n in f.in_names:
                self.by_key[n] = (f, True)

    # ---- building the real class -------------------------------------------------

    def children(self):
        return [f.node for f in self.declared]

    def own_names(self):
        out: t.List[str] = []
        for f in self.declared:
            out.extend([f.name, *f.in_names, f.out_name, f.name + 'x', f.name.upper()])
        return out

    def own_groups(self):
        return [g for g in (list(dict.fromkeys([*f.in_names, f.name])) for f in self.declared if f.init) if len(g) >= 2]

    def render(self) -> str:
        o = ', '.join(f"{k}={v!r}" for (k, v) in self.opts.items())
        lines = [f"class {self.name}(PaneBase{', ' + o if o else ''}):"]
        kwm = self.cs.get('kw_marker')
        for (i, f) in enumerate(self.declared):
            if kwm is not None and i == kwm:
                lines.append("  _: KW_ONLY")
            fs = self.cs['fields'][i]
            extras = {k: fs[k] for k in ('naming', 'out_name', 'kw_only', 'exclude', 'init', 'default') if fs.get(k) not in (None, False)}
            if fs.get('init', True) is False:
                extras['init'] = False
            lines.append(f"  {f.name}: {f.node.render()}" + (f" = field({extras})" if extras else ''))
        if self.post:
            lines.append(f"  __post_init__: {self.post}")
        return '\n'.join(lines)

    def default_object(self, f: F) -> t.Any:
        """The Python object used as default / produced by the factory (a fresh deep copy per call)."""
        assert f.default is not None
        k = (self.key, f.name)
        if k not in _DEFAULT_CACHE:
            data = f.default[1]
            obj = data
            r = f.node.ref(data)
            if isinstance(r, Acc):
                obj = materialise(r.image)
            _DEFAULT_CACHE[k] = obj
        return _DEFAULT_CACHE[k]

    def post_image(self) -> t.Any:
        if self._post_img is None and self.post is not None and self.post[0] != 'reject':
            self._post_img = (None,)
        if self._post_img is None and self.post is not None:
            (_, fname, data) = self.post
            f = next(x for x in self.fields if x.name == fname)
            r = f.node.ref(data)
            self._post_img = (r.image,) if isinstance(r, Acc) else (data,)
        return self._post_img

    def build(self):
        if self.key in _CLASS_CACHE and not FRESH[0]:
            return _CLASS_CACHE[self.key]
        import pane
        from .same import same
        ann: t.Dict[str, t.Any] = {}
        ns: t.Dict[str, t.Any] = {'__annotations__': ann, '__module__': 'pv.generated', '__qualname__': self.name}
        kwm = self.cs.get('kw_marker')
        base_node = getattr(self, 'base_node', None)
        base_fields = {bf['name']: bf for bf in base_node.cs['fields']} if base_node is not None else {}
        for (i, f) in enumerate(self.declared):
            fs = self.cs['fields'][i]
            if base_fields.get(f.name) == fs:
                continue        # inherited as it is from the base variant
            if kwm is not None and i == kwm:
                ann['_'] = pane.KW_ONLY
            ann[f.name] = f.node.pytype()
            kw: t.Dict[str, t.Any] = {}
            naming = fs.get('naming')
            if naming is not None:
                # (aliases / in_names are documented as *lists* of names; tuples work as well: both spellings, chosen by the field name)
                kw[naming[0]] = naming[1] if naming[0] == 'rename' else (list if len(f.name) % 2 == 0 else tuple)(naming[1])
            if fs.get('out_name') is not None:
                kw['out_name'] = fs['out_name']
            if fs.get('kw_only'):
                kw['kw_only'] = True
            if fs.get('exclude'):
                kw['exclude'] = True
            if fs.get('init', True) is False:
                kw['init'] = False
            for flag in ('repr', 'compare'):
                if fs.get(flag, True) is False:
                    kw[flag] = False
            if fs.get('hash') is not None:
                kw['hash'] = fs['hash']
            if f.default is not None:
                obj = self.default_object(f)
                if f.default[0] == 'factory':
                    kw['default_factory'] = (lambda o: (lambda: copy.deepcopy(o)))(obj)
                elif kw or fs.get('use_field'):
                    kw['default'] = obj
                else:
                    ns[f.name] = obj
                    continue
            if kw:
                ns[f.name] = pane.field(**kw)
        count_key = self.key if self.cs.get('count_post') else None
        if self.post is not None or count_key is not None:
            fname = self.post[1] if self.post is not None else None
            img = self.post_image()[0] if self.post is not None else None
            hook_kind = self.post[0] if self.post is not None else None

            def __post_init__(self):
                if count_key is not None:
                    POST_COUNTS[count_key] = POST_COUNTS.get(count_key, 0) + 1
                if hook_kind == 'reject_if_set':
                    # a validation hook that looks at which fields were given explicitly (through the public record of set fields)
                    if fname in self.dict(set_only=True):
                        raise PostInitBoom("tok_post_init_boom")
                elif fname is not None and same(getattr(self, fname), img) is None:
                    raise PostInitBoom("tok_post_init_boom")
            ns['__post_init__'] = __post_init__
        opts = {k: (tuple(v) if isinstance(v, list) else v) for (k, v) in self.opts.items()}
        cls = type(self.name, (base_node.pytype() if base_node is not None else pane.PaneBase,), ns, **opts)
        if not FRESH[0]:
            _CLASS_CACHE[self.key] = cls
        return cls

    # ---- valid data ------------------------------------------------------------------

    def valid(self, hd: bool = False):
        assert not hd
        strategies = []
        if 'struct' in self.in_format:
            strategies.append(self._valid_mapping())
        if 'tuple' in self.in_format:
            strategies.append(self._valid_sequence())
        return st.one_of(*strategies) if strategies else st.just({})

    def _valid_mapping(self):
        @st.composite
        def mk(draw):
            d: t.Dict[str, t.Any] = {}
            for f in self.fields:
                if not f.init:
                    continue
                if f.has_default() and draw(st.booleans()):
                    continue
                key = draw(st.sampled_from(f.in_names))
                d[key] = draw(f.node.valid())
            items = list(d.items())
            if draw(st.booleans()):
                items = draw(st.permutations(items))
            return dict(items)
        return mk()

    def _valid_sequence(self):
        @st.composite
        def mk(draw):
            n = draw(st.integers(self.min_len, self.max_len))
            return [draw(f.node.valid()) for f in self.pos[:n]]
        return mk()

    # ---- reference verdict -----------------------------------------------------------

    def _finish(self, values: t.Dict[str, t.Any], parts: t.List[Verdict], given: t.Set[str]) -> Verdict:
        for f in self.fields:
            if f.name in values or f.name in given:
                continue
            if not f.init:
                if f.has_default():
                    values[f.name] = self.default_object(f) if f.default[0] == 'value' else copy.deepcopy(self.default_object(f))
                continue
            if f.has_default():
                values[f.name] = self.default_object(f) if f.default[0] == 'value' else copy.deepcopy(self.default_object(f))
            else:
                return Rej(f"missing required field {f.name}")
        bad = combine(parts)
        if bad is not None:
            return bad
        if self.post is not None:
            from .same import same
            fname = self.post[1]
            if self.post[0] == 'reject_if_set':
                if fname in given:
                    return Rej('__post_init__ raised (field given explicitly)')
            elif fname in values and same(values[fname], self.post_image()[0]) is None:
                return Rej('__post_init__ raised')
        return Acc(Inst(self, values, set(given)))

    def ref_mapping(self, v: t.Mapping[t.Any, t.Any]) -> Verdict:
        values: t.Dict[str, t.Any] = {}
        parts: t.List[Verdict] = []
        given: t.Set[str] = set()
        unspec: t.Optional[Unspec] = None
        for (k, x) in v.items():
            hit = self.by_key.get(k) if isinstance(k, str) else None
            if hit is None:
                if not self.allow_extra:
                    return Rej(f'unknown key {k!r}')
                continue
            (f, specified) = hit
            if not specified:
                unspec = Unspec('python field name used although other input names are configured')
                continue
            if f.name in given:
                return Rej(f'duplicate key for field {f.name}')
            given.add(f.name)
            p = f.node.ref(x)
            parts.append(p)
            if isinstance(p, Acc):
                values[f.name] = p.image
        if unspec is not None:
            # the verdict may still be a certain rejection for another reason; otherwise unspecified
            r = self._finish(values, parts, given)
            return r if isinstance(r, Rej) and not r.why.startswith('missing') else unspec
        return self._finish(values, parts, given)

    def ref_sequence(self, v: t.Sequence[t.Any]) -> Verdict:
        if not (self.min_len <= len(v) <= self.max_len):
            return Rej('length out of range')
        values: t.Dict[str, t.Any] = {}
        parts: t.List[Verdict] = []
        given: t.Set[str] = set()
        for (f, x) in zip(self.pos, v):
            given.add(f.name)
            p = f.node.ref(x)
            parts.append(p)
            if isinstance(p, Acc):
                values[f.name] = p.image
        return self._finish(values, parts, given)

    def subpairs(self, v):
        if is_seq(v) and 'tuple' in self.in_format:
            return [(f.node, x) for (f, x) in zip(self.pos, v)]
        if is_map(v) and 'struct' in self.in_format:
            out = []
            for (k, x) in v.items():
                hit = self.by_key.get(k) if isinstance(k, str) else None
                if hit is not None:
                    out.append((hit[0].node, x))
            return out
        return []

    def ref(self, v):
        if is_seq(v):
            if 'tuple' not in self.in_format:
                return Rej('tuple layout not enabled')
            return self.ref_sequence(v)
        if is_map(v):
            if 'struct' not in self.in_format:
                return Rej('struct layout not enabled')
            return self.ref_mapping(v)
        return Rej('neither a mapping nor a sequence')

    # ---- output model ----------------------------------------------------------------

    def out_fields(self) -> t.List[F]:
        return [f for f in self.fields if not f.exclude]

    def output_readable(self) -> bool:
        """Is the configured output form accepted back on input (the precondition of C05/C06 for dataclasses)?"""
        if self.out_format not in self.in_format:
            return False
        if self.post is not None and self.post[0] == 'reject_if_set':
            return False    # the user's hook refuses data that gives this field, and the output gives every field
        outs = self.out_fields()
        if self.out_format == 'struct':
            for f in outs:
                if not f.init:
                    return False
                hit = self.by_key.get(f.out_name)
                if hit is None or hit[0] is not f or not hit[1]:
                    return False
            names = [f.out_name for f in outs]
            if len(set(names)) != len(names):
                return False
        else:
            # positional output must line up with positional input: excluded or keyword-only fields break the mapping
            if any(f.exclude or not f.init for f in self.fields if not f.kw_only):
                return False
        for f in self.fields:
            if f.exclude and f.init and not f.has_default():
                return False
            if f.exclude and self.post is not None and self.post[1] == f.name:
                return False   # a validation hook on a field that is not written out cannot be round-tripped
        return True


# --------------------------------------------------------------------------
# tagged unions


class TaggedNode(Node):
    kind = 'tagged'
    hashable = False

    def __init__(self, spec):
        super().__init__(spec)
        lay = spec[1]
        self.layout: t.Any = lay if isinstance(lay, str) else tuple(lay)   # 'internal' | 'external' | ('adjacent', t, c)
        self.tag: str = spec[2]
        self.variants: t.List[ClsNode] = [ClsNode(('cls', cs)) for cs in spec[3]]
        for (vn, cs) in zip(self.variants, spec[3]):
            if cs.get('base') is not None:
                # a variant that is a *subclass* of an earlier variant (its fields: the base's, the tag overridden in place, new ones behind)
                vn.base_node = self.variants[cs['base']]  # type: ignore
        self.conds: t.Tuple[t.Any, ...] = tuple(spec[4]) if len(spec) > 4 and spec[4] else ()   # conditions written after Tagged(...)
        self.tagvals: t.List[t.Any] = []
        for vnode in self.variants:
            f = next(x for x in vnode.fields if x.name == self.tag)
            assert isinstance(f.node, Lit) and f.default is not None
            self.tagvals.append(f.default[1])

    def children(self):
        return self.variants

    def own_names(self):
        out = [self.tag]
        if isinstance(self.layout, tuple):
            out.extend(self.layout[1:])
        out.extend(v for v in self.tagvals if isinstance(v, str))
        return out

    def render(self):
        ext = {'internal': 'False', 'external': 'True'}.get(self.layout) if isinstance(self.layout, str) else repr(tuple(self.layout[1:]))
        from .tg import cond_render
        extra = ''.join(', ' + cond_render(c) for c in self.conds)
        return f"Annotated[Union[{', '.join(v.name for v in self.variants)}], Tagged({self.tag!r}, external={ext}){extra}]"

    def build(self):
        from pane.annotations import Tagged
        ext: t.Any = False if self.layout == 'internal' else True if self.layout == 'external' else tuple(self.layout[1:])
        from .tg import _cond_build
        # a variant may carry annotations of its own (an always-true condition: the reference is unchanged)
        tys = tuple(t.Annotated[v.pytype(), _cond_build(('true',))] if v.spec[1].get('annotated') else v.pytype() for v in self.variants)
        return t.Annotated[(t.Union[tys], Tagged(self.tag, ext), *(_cond_build(c) for c in self.conds))]  # type: ignore

    def wrap(self, tagval: t.Any, body: t.Any) -> t.Any:
        if self.layout == 'internal':
            return {self.tag: tagval, **body}
        if self.layout == 'external':
            return {tagval: body}
        return {self.layout[1]: tagval, self.layout[2]: body}

    def valid(self, hd=False):
        assert not hd

        @st.composite
        def mk(draw):
            i = draw(st.integers(0, len(self.variants) - 1))
            vn = self.variants[i]
            body = draw(vn._valid_mapping() if (self.layout == 'internal' or 'tuple' not in vn.in_format) else vn.valid())
            if isinstance(body, dict):
                tagf = next(x for x in vn.fields if x.name == self.tag)
                for n in (*tagf.in_names, tagf.name):
                    body.pop(n, None)
            return self.wrap(self.tagvals[i], body)
        return mk()

    def split(self, v: t.Any) -> t.Union[Rej, t.Tuple[t.Any, t.Any]]:
        if not is_map(v):
            return Rej('not a mapping')
        if self.layout == 'internal':
            if self.tag not in v:
                return Rej('no tag key')
            body = {k: x for (k, x) in v.items() if not (isinstance(k, str) and k == self.tag)}
            return v[self.tag], body
        if self.layout == 'external':
            if len(v) != 1:
                return Rej('external layout needs exactly one key')
            (tag, body), = v.items()
            return tag, body
        (_, tk, ck) = self.layout
        if len(v) != 2 or tk not in v or ck not in v:
            return Rej('adjacent layout needs exactly the two keys')
        return v[tk], v[ck]

    def select(self, tag: t.Any) -> t.Union[Verdict, int]:
        try:
            hash(tag)
        except TypeError:
            return Rej('unhashable tag')
        loose = False
        for (i, tv) in enumerate(self.tagvals):
            if tag == tv:
                if type(tag) is type(tv):
                    return i
                loose = True
        if loose:
            return Unspec('tag == a declared tag of another type')
        return Rej('unknown tag')

    def subpairs(self, v):
        sp = self.split(v)
        if isinstance(sp, Rej):
            return []
        sel = self.select(sp[0])
        return [(self.variants[sel], sp[1])] if isinstance(sel, int) else []

    def ref(self, v):
        sp = self.split(v)
        if isinstance(sp, Rej):
            return sp
        (tag, body) = sp
        sel = self.select(tag)
        if not isinstance(sel, int):
            return sel
        return self.variants[sel].ref(body)


# --------------------------------------------------------------------------
# spec strategies

FIELD_NAMES = ['alpha', 'beta', 'gamma', 'delta', 'some_field', 'other_value', 'x', 'y', 'zed', 'key_one', 'my_long_name', 'val']
ALIAS_POOL = ['al', 'A1', 'alt_name', 'otherName', 'w', 'q', 'the-key', 'K']


def _is_ident(n: str) -> bool:
    return n.isidentifier() and not keyword.iskeyword(n)


@st.composite
def class_specs(draw, field_types: st.SearchStrategy[t.Any], *, max_fields: int = 4, naming: bool = True,
                layouts: bool = True, hooks: bool = True, flags: bool = False, init_false: bool = True) -> t.Any:
    """A flat pane dataclass definition that pane must accept."""
    n = draw(st.integers(0 if max_fields >= 3 else 1, max_fields))
    names = draw(st.lists(st.sampled_from(FIELD_NAMES), min_size=n, max_size=n, unique=True))
    if n and draw(st.integers(0, 11)) == 11:
        # a field called like something every pane dataclass inherits (here a classmethod of PaneBase): the inherited
        # attribute is not a default for it
        names[draw(st.integers(0, n - 1))] = 'from_yaml_all'
    opts: t.Dict[str, t.Any] = {}
    if layouts:
        lay = draw(st.sampled_from([None, ('tuple', 'struct'), ('struct',), ('tuple',), None, ('struct', 'tuple')]))
        if lay is not None:
            opts['in_format'] = list(lay)
        of = draw(st.sampled_from([None, None, 'struct', 'tuple']))
        if of is not None:
            opts['out_format'] = of
    if naming:
        mode = draw(st.sampled_from([None, 'rename', None, 'in_out', None]))
        if mode == 'rename':
            opts['rename'] = draw(st.sampled_from(STYLES))
        elif mode == 'in_out':
            ir = draw(st.one_of(st.none(), st.sampled_from(STYLES), st.lists(st.sampled_from(STYLES), min_size=1, max_size=3, unique=True)))
            if ir is not None:
                opts['in_rename'] = ir
            orr = draw(st.one_of(st.none(), st.sampled_from(STYLES)))
            if orr is not None:
                opts['out_rename'] = orr
    if draw(st.integers(0, 5)) == 5:
        opts['allow_extra'] = True
    if draw(st.integers(0, 7)) == 7:
        opts['kw_only'] = True
    if flags and draw(st.integers(0, 3)) == 3:
        opts['frozen'] = False
    tuple_in = 'tuple' in (opts.get('in_format') or ())
    kwm: t.Optional[int] = None
    if n >= 2 and draw(st.integers(0, 4)) == 4:
        kwm = draw(st.integers(1, n - 1))
    fields: t.List[t.Dict[str, t.Any]] = []
    used_keys: t.Set[str] = set(names)
    seen_opt = False
    aliases_left = list(ALIAS_POOL)
    for (i, name) in enumerate(names):
        ty = draw(field_types)
        fs: t.Dict[str, t.Any] = {'name': name, 'type': ty}
        kw = bool(opts.get('kw_only')) or (kwm is not None and i >= kwm)
        if not kw and draw(st.integers(0, 6)) == 6:
            fs['kw_only'] = True
            kw = True
        need_default = (seen_opt and not kw) or (kw and tuple_in)
        want_default = need_default or draw(st.integers(0, 2)) == 2
        if want_default:
            nd = node(ty)
            data = None
            for _ in range(4):
                data = plainify(draw(nd.valid()))
                if isinstance(nd.ref(data), Acc):
                    break
            else:
                # defaults are stored verbatim by pane, so a default must already be a typed value
                (ty, data) = (('s', 'int'), 0)
                fs['type'] = ty
                nd = node(ty)
            mutable = isinstance(data, (list, dict)) or nd.kind.startswith(('seq', 'mapping', 'struct', 'dataclass', 'tagged', 'ValueOrList', 'ndarray'))
            fs['default'] = ['factory' if (mutable or draw(st.integers(0, 3)) == 3) else 'value', data]
            if not kw:
                seen_opt = True
        if naming and aliases_left and draw(st.integers(0, 3)) == 3:
            kind = draw(st.sampled_from(['aliases', 'in_names', 'rename']))
            k = draw(st.integers(1, 2)) if kind != 'rename' else 1
            picked = []
            for _ in range(min(k, len(aliases_left))):
                a = aliases_left.pop(draw(st.integers(0, len(aliases_left) - 1)))
                picked.append(a)
            fs['naming'] = ['rename', picked[0]] if kind == 'rename' else [kind, picked]
        if naming and aliases_left and draw(st.integers(0, 7)) == 7:
            fs['out_name'] = aliases_left.pop(draw(st.integers(0, len(aliases_left) - 1)))
        if 'default' in fs and draw(st.integers(0, 9)) == 9:
            fs['exclude'] = True
        fields.append(fs)
        if init_false and len(fields) < max_fields + 1 and draw(st.integers(0, 5)) == 5:
            # a field pane does not touch on input (init=False): it must be excluded from output and have a default
            # (DESIGN section 2); it may sit anywhere among the positional fields
            nm = draw(st.sampled_from(['cache_slot', 'derived', 'memo']))
            if nm not in used_keys:
                used_keys.add(nm)
                # (a plain default: pane leaves init=False fields to the class, so only a class-attribute default is ever visible)
                ity = draw(st.sampled_from([('s', 'str'), ('s', 'int'), ('s', 'float')]))
                idata = {'str': 'K', 'int': 0, 'float': 0.5}[ity[1]]
                fields.append({'name': nm, 'type': ity, 'init': False, 'exclude': True, 'default': ['value', idata]})
    plain = [f for f in fields if f.get('init', True) and 'naming' not in f and 'out_name' not in f]
    if naming and len(plain) >= 2 and aliases_left and draw(st.integers(0, 7)) == 7:
        # one field takes the *python name of another field* as its configured name, while that other field is itself renamed away:
        # every field still has exactly one configured name and they are all different
        (i, j) = (draw(st.integers(0, len(plain) - 1)), draw(st.integers(0, len(plain) - 2)))
        (fa, fb) = (plain[i], [f for f in plain if f is not plain[i]][j])
        fa['naming'] = ['rename', fb['name']]
        fb['naming'] = ['rename', aliases_left.pop(draw(st.integers(0, len(aliases_left) - 1)))]
    cs: t.Dict[str, t.Any] = {'fields': fields, 'opts': opts}
    if kwm is not None:
        # the marker sits in front of the kwm-th *drawn* field; inserted init=False fields shift its index
        cs['kw_marker'] = next(j for (j, f) in enumerate(fields) if f['name'] == names[kwm])
    # (the hook compares a field with a fixed value: only fields whose values do not involve generated classes, whose
    #  instances are equal only within one class object, so that a structurally equal fresh class behaves the same)
    hookable = [f for f in fields if f.get('init', True) and not any(n.kind in ('dataclass', 'tagged') for n in node(f['type']).walk())]
    if hooks and hookable and draw(st.integers(0, 5)) == 5:
        fs = draw(st.sampled_from(hookable))
        cs['post'] = ['reject', fs['name'], draw(node(fs['type']).valid())]
        with_default = [f for f in fields if f.get('init', True) and 'default' in f and not f.get('exclude')]
        if with_default and draw(st.integers(0, 2)) == 2:
            # a hook about *which* fields were given: the record of set fields must already be right when the hook runs
            cs['post'] = ['reject_if_set', draw(st.sampled_from(with_default))['name'], None]
    return ('cls', cs)


def derived_variant(base: t.Dict[str, t.Any], base_index: int, tag: str, tagval: t.Any) -> t.Dict[str, t.Any]:
    """Variant spec for a subclass of variant ``base``: same fields with the tag literal overridden, plus one field of its own."""
    fields = [dict(f) for f in base['fields']]
    for f in fields:
        if f['name'] == tag:
            f['type'] = ('lit', (tagval,))
            f['default'] = ['value', tagval]
    fields.append({'name': 'inner', 'type': ('s', 'float'), 'default': ['value', 0.5]})
    return {'fields': fields, 'opts': dict(base['opts']), 'name': f"{base['name']}Sub", 'base': base_index}


@st.composite
def tagged_specs(draw, field_types: st.SearchStrategy[t.Any]) -> t.Any:
    tag = draw(st.sampled_from(['tag', 'kind', 'ty']))
    nvar = draw(st.integers(2, 3))
    tagkind = draw(st.sampled_from(['str', 'int']))
    vals = ['a', 'b', 'c', 'd'] if tagkind == 'str' else [1, 2, 3, 4]
    layout: t.Any = draw(st.sampled_from(['internal', 'external', ['adjacent', 't', 'c']]))
    variants = []
    shared = draw(st.lists(st.tuples(st.sampled_from(['x', 'y', 'val']), field_types), max_size=2, unique_by=lambda p: p[0]))
    for i in range(nvar):
        fields: t.List[t.Dict[str, t.Any]] = [{'name': tag, 'type': ('lit', (vals[i],)), 'default': ['value', vals[i]]}]
        if draw(st.integers(0, 5)) == 5:
            fields[0]['exclude'] = True     # the tag is not part of the variant's own output: the union has to write it
        for (fname, ty) in shared:
            if draw(st.integers(0, 3)) > 0:
                fs: t.Dict[str, t.Any] = {'name': fname, 'type': ty}
                data = plainify(draw(node(ty).valid()))
                if not isinstance(node(ty).ref(data), Acc):
                    (ty, data) = (('s', 'int'), 0)
                    fs['type'] = ty
                fs['default'] = ['factory', data]
                if draw(st.booleans()):
                    fs.pop('default')
                    # a required field after the (defaulted) tag field must be keyword-only
                    fs['kw_only'] = True
                fields.append(fs)
        opts: t.Dict[str, t.Any] = {}
        if layout != 'internal' and draw(st.integers(0, 3)) == 0 and not any(f.get('kw_only') and 'default' not in f for f in fields):
            opts['in_format'] = ['struct', 'tuple']
        vs: t.Dict[str, t.Any] = {'fields': fields, 'opts': opts, 'name': f"V{i}{spec_key(fields)[:5]}"}
        if draw(st.integers(0, 3)) == 3:
            vs['annotated'] = True
        variants.append(vs)
    if draw(st.integers(0, 3)) == 3:
        variants.append(derived_variant(variants[0], 0, tag, vals[nvar]))
    return ('tagged', layout, tag, tuple(variants))


class GBoxNode(ClsNode):
    """('gbox', inner spec): the parametrization GBox[inner] of the process-wide generic dataclass; modelled as a one-field class."""

    def __init__(self, spec):
        inner = spec[1]
        super().__init__(('cls', {'name': 'GBox', 'fields': [{'name': 'value', 'type': inner}], 'opts': {}}))
        self.spec = spec
        self.inner_spec = inner

    def render(self):
        return f"GBox[{self.declared[0].node.render()}]"

    def build(self):
        return gbox()[self.declared[0].node.pytype()]
