"""
Type grammar and reference interpreter.

A *type spec* is a nested tuple of plain data, e.g.

    ('seq', 'List', ('s', 'int'))                 -> typing.List[int]
    ('union', 'Optional', (('s', 'str'),))         -> typing.Optional[str]
    ('cls', {...class spec...})                    -> a pane dataclass built from the spec

``node(spec)`` turns it into a Node which can

    build()    the pane type object (kept alive for the life of the process)
    valid()    a Hypothesis strategy for interchange data the type must accept
    ref(v)     the reference verdict Acc(image) / Rej / Unspec for any value

The reference interpreter never looks at typing objects or at anything pane
computed: it is written over the grammar nodes, from the documented rules
(docs/index.md, docs/using/*.md, the property statements).
"""

from __future__ import annotations

import collections
import collections.abc
import dataclasses
import datetime
import decimal
import enum
import fractions
import math
import os
import pathlib
import re
import types
import typing as t

from hypothesis import strategies as st

from . import usertypes
from .codec import MySeq, MyMap

TRACE: t.List[t.Optional[t.List[t.Any]]] = [None]   # when a list: union nodes record (node, chosen member index)
_BUILD_DEPTH = [0]
NO_KEEP = [False]   # C10 only: let built type objects die when the history drops them
KEEP: t.List[t.Any] = []   # every built type object stays alive (see DESIGN 3.2)


# --------------------------------------------------------------------------
# verdicts


@dataclasses.dataclass
class Acc:
    image: t.Any


@dataclasses.dataclass
class Rej:
    why: str = ''


@dataclasses.dataclass
class Unspec:
    why: str = ''


Verdict = t.Union[Acc, Rej, Unspec]


def combine(parts: t.Iterable[Verdict]) -> t.Optional[Verdict]:
    """Product rule: any Rej -> Rej; else any Unspec -> Unspec; else None (all accepted)."""
    un: t.Optional[Unspec] = None
    for p in parts:
        if isinstance(p, Rej):
            return p
        if isinstance(p, Unspec) and un is None:
            un = p
    return un


def is_seq(v: t.Any) -> bool:
    return isinstance(v, collections.abc.Sequence) and not isinstance(v, (str, bytes, bytearray))


def is_map(v: t.Any) -> bool:
    return isinstance(v, collections.abc.Mapping)


# --------------------------------------------------------------------------
# data strategies

LOOKALIKE_STRS = ['', '5', '1.5', 'true', 'True', 'nan', 'NaN', 'inf', '1/2', '1/0', '2023-01-05', '11:12:13',
                  '2023-01-05 11:12:13', '2023-13-45', 'a', 'ab', 'x', 'b', 'red', 'None', 'null', '(', 'a{4294967296}',
                  '1e5', '0x10', ' 5', '5 ', '1_0', '[1]', 'tag', 't', 'c']

texts = st.one_of(st.text(max_size=6), st.sampled_from(LOOKALIKE_STRS), st.text(alphabet='ab', max_size=3))
small_ints = st.one_of(st.integers(-5, 5), st.integers(-10**6, 10**6), st.sampled_from([0, 1, 2, 3, 10, 20, 2**31, 2**63, -2**63 - 1, 10**30]))
all_floats = st.one_of(st.floats(allow_nan=True, allow_infinity=True), st.sampled_from([0.0, -0.0, 1.0, 1.5, 2.5, 5.0, float('inf'), float('-inf'), float('nan')]))
finite_floats = st.one_of(st.floats(allow_nan=False, allow_infinity=False), st.sampled_from([0.0, -0.0, 1.0, 1.5, 2.5, 5.0]))
complexes = st.one_of(st.complex_numbers(allow_nan=True, allow_infinity=True), st.sampled_from([0j, 1 + 0j, 1.5 + 2j]))
binaries = st.one_of(st.binary(max_size=5), st.sampled_from([b'', b'5', b'ab', b'\x00', b'x']))
byte_like = st.one_of(binaries, binaries.map(bytearray))

scalars = st.one_of(st.none(), st.booleans(), small_ints, all_floats, texts, binaries, complexes, binaries.map(bytearray))
hashable_scalars = st.one_of(st.none(), st.booleans(), small_ints, finite_floats, texts, binaries)


_DV_CACHE: t.Dict[int, st.SearchStrategy[t.Any]] = {}


def data_values(max_leaves: int = 6) -> st.SearchStrategy[t.Any]:
    """Arbitrary interchange data (strategy objects are cached: building a recursive strategy is expensive)."""
    if max_leaves not in _DV_CACHE:
        _DV_CACHE[max_leaves] = _data_values(max_leaves)
    return _DV_CACHE[max_leaves]


def _data_values(max_leaves: int) -> st.SearchStrategy[t.Any]:
    return st.recursive(
        scalars,
        lambda ch: st.one_of(
            st.lists(ch, max_size=3),
            st.lists(ch, max_size=3).map(tuple),
            st.lists(ch, max_size=3).map(MySeq),
            st.dictionaries(hashable_scalars, ch, max_size=3),
            st.dictionaries(texts, ch, max_size=3).map(MyMap),
        ),
        max_leaves=max_leaves,
    )


_HD = st.recursive(hashable_scalars, lambda ch: st.lists(ch, max_size=2).map(tuple), max_leaves=3)


def hashable_data() -> st.SearchStrategy[t.Any]:
    return _HD


# --------------------------------------------------------------------------
# nodes


class Names(list):  # type: ignore
    groups: t.List[t.List[str]] = []


def is_array(v: t.Any) -> bool:
    return type(v).__module__ == 'numpy' and type(v).__name__ == 'ndarray'


class Node:
    kind: str = '?'
    hashable: bool = False       # the *image* is always hashable
    spec: t.Any

    def __init_subclass__(cls, **kw: t.Any) -> None:
        super().__init_subclass__(**kw)
        orig = cls.__dict__.get('ref')
        if orig is not None:
            # numpy arrays are declared interchange data (pane.convert.DataType), but what they denote for non-array
            # targets is not documented: every reference verdict for an array input is "unspecified".  Totality (C04),
            # two-pass agreement (C03) and the shape of results still apply to them.
            def ref(self: t.Any, v: t.Any, _orig: t.Any = orig) -> t.Any:
                if is_array(v):
                    return Unspec('a numpy array given as data')
                return _orig(self, v)
            cls.ref = ref  # type: ignore

    def __init__(self, spec: t.Any):
        self.spec = spec
        self._ty: t.Any = None

    def pytype(self) -> t.Any:
        if self._ty is None:
            # typing caches subscriptions by *equal* arguments, and Union / Literal equality ignores order:
            # List[Union[a, b]] may hand back an alias made earlier for List[Union[b, a]] - also one made a moment ago
            # for a sibling field of the same class (Optional[Union[int, float]] next to Optional[Union[float, int]]).
            # Start every build, at every level, from empty caches so the built type has the member order the spec says
            # (the children are built - and kept in their nodes - before the parent subscribes with them).
            for clear in getattr(t, '_cleanups', ()):
                clear()
            _BUILD_DEPTH[0] += 1
            try:
                self._ty = self.build()
            finally:
                _BUILD_DEPTH[0] -= 1
            if not NO_KEEP[0]:
                KEEP.append(self._ty)
        return self._ty

    def build(self) -> t.Any:
        raise NotImplementedError

    def valid(self, hd: bool = False) -> st.SearchStrategy[t.Any]:
        """Data the type must accept.  hd=True: the data itself must be hashable (it is used as a mapping key)."""
        raise NotImplementedError

    def ref(self, v: t.Any) -> Verdict:
        raise NotImplementedError

    def children(self) -> t.Sequence['Node']:
        return ()

    def render(self) -> str:
        return self.kind

    def depth(self) -> int:
        return 1 + max((c.depth() for c in self.children()), default=0)

    def walk(self) -> t.Iterator['Node']:
        yield self
        for c in self.children():
            yield from c.walk()

    def names(self) -> t.List[str]:
        """Key names this type knows about (for key-level mutations); ``.groups`` lists the sets of keys that name one and the same field."""
        out = Names()
        groups: t.List[t.List[str]] = []
        for n in self.walk():
            out.extend(n.own_names())
            groups.extend(n.own_groups())
        out.groups = groups
        return out

    def own_names(self) -> t.List[str]:
        return []

    def own_groups(self) -> t.List[t.List[str]]:
        return []

    def subpairs(self, v: t.Any) -> t.List[t.Tuple['Node', t.Any]]:
        """(child node, sub-value) pairs this node would recurse into for value ``v`` (for blame assignment)."""
        return []


def _try(f: t.Callable[[], t.Any]) -> Verdict:
    try:
        return Acc(f())
    except Exception as e:
        return Rej(f"constructor raised {type(e).__name__}")


PATH_TYPES = {
    'PurePath': pathlib.PurePath, 'PurePosixPath': pathlib.PurePosixPath, 'Path': pathlib.Path,
    'PosixPath': pathlib.PosixPath, 'PathLike': os.PathLike, 'PureWindowsPath': pathlib.PureWindowsPath,
}
PATTERNS = {
    'rePattern': lambda: re.Pattern, 'tPattern': lambda: t.Pattern, 'Pattern[str]': lambda: re.Pattern[str],
    'tPattern[str]': lambda: t.Pattern[str], 'Pattern[bytes]': lambda: re.Pattern[bytes], 'tPattern[bytes]': lambda: t.Pattern[bytes],
}
GOOD_PATTERNS = ['', 'abc', 'a+b*', '[a-z]{2,3}', r'(?P<x>\d+)', r'\w+\s', 'a|b', '^x$']

TRICKY: t.Dict[str, t.List[t.Any]] = {
    'pattern': ['(', 'a{4294967296}', '[', '*', '(?P<x', 'a{2,1}', '\\', '(?z)', 'a{4294967295,4294967296}'],
    'pattern-bytes': [b'(', b'a{4294967296}', b'[', b'*', b'\\'],
    'Fraction': ['1/0', 'abc', '', '1/-2', '1//2', 'nan', 'inf', float('nan'), float('inf')],
    'Decimal': ['abc', '', '1e400', '--1', '1/2', 'sNaN'],
    'date': ['2023-13-45', '', '11:12:13', '2023-1-5', '20230105', '2023-W01-1', 'today'],
    'time': ['25:00:00', '', '2023-01-05', '11:12', 'T11', '11:12:13Z', '11:12:13+25:00'],
    'datetime': ['2023-13-45 00:00:00', '', '2023-01-05T25:00', '2023-01-05 11:12:13+99:00', '11:12:13'],
    'float': [10**400, -10**400, 10**308, 2**1024],
    'complex': [10**400],
    'path': ['\x00', 'a\x00b'],
}

SCALAR_NAMES = ['int', 'float', 'complex', 'str', 'bytes', 'bytearray', 'bool', 'none', 'any', 'Decimal', 'Fraction',
                'date', 'time', 'datetime', 'Workday', *PATH_TYPES.keys(), *PATTERNS.keys()]


_PLAIN = (int, float, complex, str, bytes, bytearray, bool)


class Scalar(Node):
    def __init__(self, spec):
        super().__init__(spec)
        self.name: str = spec[1]
        self.kind = self.name
        self.hashable = self.name != 'any' and self.name != 'bytearray'

    def render(self) -> str:
        return {'none': 'None', 'any': 'Any'}.get(self.name, self.name)

    def build(self):
        n = self.name
        simple = {'int': int, 'float': float, 'complex': complex, 'str': str, 'bytes': bytes, 'bytearray': bytearray,
                  'bool': bool, 'none': type(None), 'any': t.Any, 'Decimal': decimal.Decimal, 'Fraction': fractions.Fraction,
                  'date': datetime.date, 'time': datetime.time, 'datetime': datetime.datetime}
        if n == 'none' and len(self.spec) > 2:
            return None     # the bare spelling
        if n == 'Workday':
            return usertypes.Workday
        if n in simple:
            return simple[n]
        if n in PATH_TYPES:
            return PATH_TYPES[n]
        return PATTERNS[n]()

    _VALID_CACHE: t.Dict[t.Tuple[str, bool], t.Any] = {}

    def valid(self, hd: bool = False):
        k = (self.name, hd)
        c = Scalar._VALID_CACHE.get(k)
        if c is None:
            c = self._valid(hd)
            tricky = TRICKY.get(self.name) or (TRICKY['pattern-bytes'] if self.name.endswith('[bytes]') else
                                               TRICKY['pattern'] if self.name in PATTERNS else
                                               TRICKY['path'] if self.name in PATH_TYPES else None)
            if tricky:
                # right input kind, but the constructor may raise: "mostly valid" is all valid() promises
                c = st.one_of(c, c, c, st.sampled_from(tricky))
            Scalar._VALID_CACHE[k] = c
        return c

    def _valid(self, hd: bool = False):
        n = self.name
        if n == 'int':
            return small_ints
        if n == 'float':
            fl = finite_floats if hd else all_floats
            return st.one_of(fl, st.integers(-10**15, 10**15))
        if n == 'complex':
            return st.one_of(complexes if not hd else st.sampled_from([0j, 1 + 2j]), finite_floats, st.integers(-10**6, 10**6))
        if n == 'str':
            return texts
        if n in ('bytes', 'bytearray'):
            return binaries if hd else byte_like
        if n == 'bool':
            return st.booleans()
        if n == 'none':
            return st.none()
        if n == 'any':
            return hashable_data() if hd else data_values(4)
        if n == 'Decimal':
            return st.one_of(st.integers(-10**6, 10**6), finite_floats, st.sampled_from(['1.5', '-3', '1E+5', 'NaN', 'Infinity', '0.10', ' 7 ']),
                             st.decimals(allow_nan=False, allow_infinity=False, places=3, min_value=-1000, max_value=1000).map(str))
        if n == 'Fraction':
            return st.one_of(st.integers(-10**6, 10**6), finite_floats, st.sampled_from(['1/2', '-3/4', '1.5', '7', '1e3', ' 2/3 ']),
                             st.fractions(max_denominator=50).map(str))
        if n in ('date', 'Workday'):
            return st.dates().map(lambda d: d.isoformat())
        if n == 'time':
            return st.times().map(lambda d: d.isoformat())
        if n == 'datetime':
            return st.one_of(st.datetimes().map(lambda d: d.isoformat()), st.datetimes().map(lambda d: d.isoformat(' ')),
                             st.dates().map(lambda d: d.isoformat()))
        if n in PATH_TYPES:
            return st.one_of(st.sampled_from(['', '.', 'a', 'a/b', '/abs/path', 'x.txt', '../up', 'a//b/']), st.text(alphabet='ab/.', max_size=5))
        if n.endswith('[bytes]'):
            return st.sampled_from(GOOD_PATTERNS).map(lambda s: s.encode()).flatmap(
                lambda b: st.just(b) if hd else st.sampled_from([b, bytearray(b)]))
        return st.sampled_from(GOOD_PATTERNS)

    def ref(self, v: t.Any) -> Verdict:
        n = self.name
        ty = type(v)
        if n == 'any':
            return Acc(v)
        if n == 'Workday':
            return Unspec('a user subclass of a date type (whether and how it is built from data is not documented)')
        if ty not in _PLAIN and isinstance(v, _PLAIN):
            return Unspec('instance of a subclass of an interchange type given to a scalar target')
        if n == 'none':
            return Acc(None) if v is None else Rej('not None')
        if n == 'bool':
            return Acc(v) if ty is bool else Rej('not a bool')
        if n == 'str':
            return Acc(v) if ty is str else Rej('not a str')
        if n == 'bytes':
            return Acc(bytes(v)) if ty in (bytes, bytearray) else Rej('not bytes')
        if n == 'bytearray':
            return Acc(bytearray(v)) if ty in (bytes, bytearray) else Rej('not bytes')
        if n in ('int', 'float', 'complex', 'Decimal', 'Fraction'):
            if ty is bool:
                return Unspec('bool given to a numeric target')
            allowed = {'int': (int,), 'float': (int, float), 'complex': (int, float, complex),
                       'Decimal': (int, str, float), 'Fraction': (int, str, float)}[n]
            if ty not in allowed:
                return Rej(f'{ty.__name__} is not accepted by {n}')
            ctor = {'int': int, 'float': float, 'complex': complex, 'Decimal': decimal.Decimal, 'Fraction': fractions.Fraction}[n]
            return _try(lambda: ctor(v))
        if n in ('date', 'time', 'datetime'):
            if ty is not str:
                return Rej('not an ISO string')
            cls = {'date': datetime.date, 'time': datetime.time, 'datetime': datetime.datetime}[n]
            return _try(lambda: cls.fromisoformat(v))
        if n in PATH_TYPES:
            if ty is not str:
                return Rej('not a str')
            cls = pathlib.PurePath if n == 'PathLike' else PATH_TYPES[n]
            if n == 'PureWindowsPath' or cls is pathlib.PureWindowsPath:
                return _try(lambda: pathlib.PureWindowsPath(v))
            return _try(lambda: cls(v))
        # patterns
        if n.endswith('[bytes]'):
            if ty not in (bytes, bytearray):
                return Rej('not bytes')
            return _try(lambda: re.compile(bytes(v)))
        if ty is not str:
            return Rej('not a str')
        return _try(lambda: re.compile(v))


class Sub(Node):
    """User subclass of int / float / str / bytes (the delegate path)."""
    hashable = True

    def __init__(self, spec):
        super().__init__(spec)
        self.base: str = spec[1]
        self.cls = usertypes.SUBCLASSES[self.base]
        self.kind = f'sub:{self.base}'
        self.inner = Scalar(('s', self.base))

    def render(self):
        return self.cls.__name__

    def build(self):
        return self.cls

    def valid(self, hd=False):
        return self.inner.valid(hd)

    def subpairs(self, v):
        return [(self.inner, v)]

    def ref(self, v):
        r = self.inner.ref(v)
        if isinstance(r, Acc):
            return _try(lambda: self.cls(r.image))
        return r


def _lit_match(v: t.Any, lits: t.Sequence[t.Any]) -> t.Tuple[bool, bool]:
    """-> (exact match: same type and equal, loose match: == only)."""
    exact = loose = False
    for x in lits:
        try:
            eq = bool(v == x)
        except Exception:
            eq = False
        if eq:
            loose = True
            if type(v) is type(x):
                exact = True
    return exact, loose


class Lit(Node):
    hashable = True
    kind = 'Literal'

    def __init__(self, spec):
        super().__init__(spec)
        self.vals: t.Tuple[t.Any, ...] = tuple(spec[1])

    def render(self):
        return f"Literal[{', '.join(map(repr, self.vals))}]"

    def build(self):
        return t.Literal[self.vals]  # type: ignore

    def valid(self, hd=False):
        return st.sampled_from(self.vals)

    def ref(self, v):
        if isinstance(v, (list, dict, set, bytearray)) or is_seq(v) or is_map(v):
            # unhashable / container values never equal a literal
            exact, loose = _lit_match(v, self.vals)
            if exact:
                return Acc(v)
            return Unspec('value == a literal of another type') if loose else Rej('not one of the literals')
        exact, loose = _lit_match(v, self.vals)
        if exact:
            return Acc(v)
        if loose:
            return Unspec('value == a literal of another type')
        return Rej('not one of the literals')


class Enum(Node):
    hashable = True

    def __init__(self, spec):
        super().__init__(spec)
        self.cls = usertypes.ENUMS[spec[1]]
        self.kind = f'enum:{spec[1]}'
        self.by_value = [(m.value, m) for m in self.cls.__members__.values()]

    def render(self):
        return self.cls.__name__

    def build(self):
        return self.cls

    def valid(self, hd=False):
        vals = [val for (val, _) in self.by_value]
        if not hd and any(type(x) is tuple for x in vals):
            vals = vals + [list(x) for x in vals if type(x) is tuple] + [[[1], 2], [{}]]
        return st.sampled_from(vals)

    def ref(self, v):
        if is_seq(v) and any(type(val) is tuple for (val, _) in self.by_value):
            # members whose value is a tuple: the value type is a sequence of anything, so sequence data denotes tuple(data)
            try:
                tv = tuple(v)
                hash(tv)
            except TypeError:
                return Rej('not a member value (unhashable)')
            for (val, m) in self.by_value:
                if type(val) is tuple and len(val) == len(tv) and all(type(a) is type(b) and a == b for (a, b) in zip(tv, val)):
                    return Acc(m)
            if any(type(val) is tuple and tv == val for (val, _) in self.by_value):
                return Unspec('value == a member value of another type')
            return Rej('not a member value')
        if is_seq(v) or is_map(v) or isinstance(v, bytearray):
            return Rej('not a member value') if not isinstance(v, bytearray) else Unspec('bytearray vs bytes member value')
        exact_m = None
        loose = False
        for (val, m) in self.by_value:
            try:
                eq = bool(v == val)
            except Exception:
                eq = False
            if eq:
                loose = True
                if type(v) is type(val):
                    exact_m = m
        if exact_m is not None:
            return Acc(exact_m)
        if loose:
            return Unspec('value == a member value of another type')
        if type(v) is bool and any(type(val) in (int, float) for (val, _) in self.by_value):
            return Unspec('bool given to a numeric enum')
        return Rej('not a member value')


# spelling -> (builder(elem type), image constructor)
SEQ_SPELL: t.Dict[str, t.Tuple[t.Callable[[t.Any], t.Any], t.Callable[[t.Iterable[t.Any]], t.Any]]] = {
    'List': (lambda e: t.List[e], list),
    'list': (lambda e: list[e], list),
    'Sequence': (lambda e: t.Sequence[e], tuple),
    'abcSequence': (lambda e: collections.abc.Sequence[e], tuple),
    'MutableSequence': (lambda e: t.MutableSequence[e], list),
    'abcMutableSequence': (lambda e: collections.abc.MutableSequence[e], list),
    'TupleVar': (lambda e: t.Tuple[e, ...], tuple),
    'tuplevar': (lambda e: tuple[e, ...], tuple),
    'Set': (lambda e: t.Set[e], set),
    'set': (lambda e: set[e], set),
    'FrozenSet': (lambda e: t.FrozenSet[e], frozenset),
    'frozenset': (lambda e: frozenset[e], frozenset),
    'AbstractSet': (lambda e: t.AbstractSet[e], frozenset),
    'abcSet': (lambda e: collections.abc.Set[e], frozenset),
    'MutableSet': (lambda e: t.MutableSet[e], set),
    'abcMutableSet': (lambda e: collections.abc.MutableSet[e], set),
    'Deque': (lambda e: t.Deque[e], collections.deque),
    'deque': (lambda e: collections.deque[e], collections.deque),
}
SEQ_BARE: t.Dict[str, t.Tuple[t.Any, t.Callable[[t.Iterable[t.Any]], t.Any]]] = {
    'list_bare': (list, list), 'tuple_bare': (tuple, tuple), 'set_bare': (set, set), 'frozenset_bare': (frozenset, frozenset),
    'deque_bare': (collections.deque, collections.deque), 'List_bare': (t.List, list), 'Sequence_bare': (t.Sequence, tuple),
    'Tuple_bare': (t.Tuple, tuple), 'Set_bare': (t.Set, set),
}
SETLIKE = {'Set', 'set', 'FrozenSet', 'frozenset', 'AbstractSet', 'abcSet', 'MutableSet', 'abcMutableSet', 'set_bare', 'frozenset_bare', 'Set_bare'}


class Seq(Node):
    def __init__(self, spec):
        super().__init__(spec)
        self.spelling: str = spec[1]
        if self.spelling in SEQ_BARE:
            self.elem: Node = Scalar(('s', 'any'))
            self.ctor = SEQ_BARE[self.spelling][1]
            self.bare = True
        else:
            self.elem = node(spec[2])
            self.ctor = SEQ_SPELL[self.spelling][1]
            self.bare = False
        self.setlike = self.spelling in SETLIKE
        self.kind = f'seq:{self.ctor.__name__}'
        self.hashable = self.ctor in (tuple, frozenset) and self.elem.hashable

    def children(self):
        return (self.elem,)

    def render(self):
        if self.bare:
            return self.spelling.replace('_bare', '')
        if self.spelling in ('TupleVar', 'tuplevar'):
            return f"{'Tuple' if self.spelling == 'TupleVar' else 'tuple'}[{self.elem.render()}, ...]"
        return f"{self.spelling}[{self.elem.render()}]"

    def build(self):
        if self.bare:
            return SEQ_BARE[self.spelling][0]
        return SEQ_SPELL[self.spelling][0](self.elem.pytype())

    def valid(self, hd=False):
        el = self.elem.valid(hd=True) if (hd or (self.setlike and self.bare)) else self.elem.valid()
        return st.lists(el, max_size=3).map(tuple if hd else list)

    def subpairs(self, v):
        return [(self.elem, x) for x in v] if is_seq(v) else []

    def ref(self, v):
        if not is_seq(v):
            return Rej('not a sequence')
        parts = [self.elem.ref(x) for x in v]
        bad = combine(parts)
        if bad is not None:
            return bad
        return _try(lambda: self.ctor(p.image for p in parts))  # type: ignore


class Tup(Node):
    """Fixed-length tuple: typing spelling or a tuple *type literal* (int, str)."""

    def __init__(self, spec):
        super().__init__(spec)
        self.spelling: str = spec[1]       # 'Tuple' | 'tuple' | 'lit'
        self.elems: t.List[Node] = [node(s) for s in spec[2]]
        self.kind = 'tuple-literal' if self.spelling == 'lit' else 'tuple-fixed'
        self.hashable = all(e.hashable for e in self.elems)

    def children(self):
        return self.elems

    def render(self):
        inner = ', '.join(e.render() for e in self.elems)
        if self.spelling == 'lit':
            return f"({inner}{',' if len(self.elems) == 1 else ''})"
        return f"{self.spelling}[{inner or '()'}]"

    def build(self):
        tys = tuple(e.pytype() for e in self.elems)
        if self.spelling == 'lit':
            return tys
        if self.spelling == 'Tuple':
            return t.Tuple[tys] if tys else t.Tuple[()]
        return tuple[tys] if tys else tuple[()]  # type: ignore

    def valid(self, hd=False):
        return st.tuples(*(e.valid(hd) for e in self.elems)).map(tuple if hd else list)

    def subpairs(self, v):
        return list(zip(self.elems, v)) if is_seq(v) and len(v) == len(self.elems) else []

    def ref(self, v):
        if not is_seq(v):
            return Rej('not a sequence')
        if len(v) != len(self.elems):
            return Rej('wrong length')
        parts = [e.ref(x) for (e, x) in zip(self.elems, v)]
        bad = combine(parts)
        if bad is not None:
            return bad
        return Acc(tuple(p.image for p in parts))  # type: ignore


MAP_SPELL: t.Dict[str, t.Tuple[t.Callable[[t.Any, t.Any], t.Any], t.Callable[[t.Dict[t.Any, t.Any]], t.Any]]] = {
    'Dict': (lambda k, v: t.Dict[k, v], dict),
    'dict': (lambda k, v: dict[k, v], dict),
    'Mapping': (lambda k, v: t.Mapping[k, v], dict),
    'abcMapping': (lambda k, v: collections.abc.Mapping[k, v], dict),
    'MutableMapping': (lambda k, v: t.MutableMapping[k, v], dict),
    'abcMutableMapping': (lambda k, v: collections.abc.MutableMapping[k, v], dict),
    'DefaultDict': (lambda k, v: t.DefaultDict[k, v], lambda d: collections.defaultdict(None, d)),
    'defaultdict': (lambda k, v: collections.defaultdict[k, v], lambda d: collections.defaultdict(None, d)),
    'OrderedDict': (lambda k, v: t.OrderedDict[k, v], collections.OrderedDict),
    'abcOrderedDict': (lambda k, v: collections.OrderedDict[k, v], collections.OrderedDict),
}
MAP_BARE: t.Dict[str, t.Tuple[t.Any, t.Callable[[t.Dict[t.Any, t.Any]], t.Any]]] = {
    'dict_bare': (dict, dict), 'Dict_bare': (t.Dict, dict), 'Mapping_bare': (t.Mapping, dict),
    'defaultdict_bare': (collections.defaultdict, lambda d: collections.defaultdict(None, d)),
    'OrderedDict_bare': (collections.OrderedDict, collections.OrderedDict),
    'Counter_bare': (collections.Counter, collections.Counter),
}


class _Collide(Exception):
    pass


class Map(Node):
    def __init__(self, spec):
        super().__init__(spec)
        self.spelling: str = spec[1]
        if self.spelling in MAP_BARE:
            self.k: Node = Scalar(('s', 'any'))
            self.v: Node = Scalar(('s', 'int')) if self.spelling == 'Counter_bare' else Scalar(('s', 'any'))
            self.ctor = MAP_BARE[self.spelling][1]
            self.bare = True
        elif self.spelling in ('Counter', 'counter'):
            self.k = node(spec[2])
            self.v = Scalar(('s', 'int'))
            self.ctor = collections.Counter
            self.bare = False
        else:
            self.k = node(spec[2])
            self.v = node(spec[3])
            self.ctor = MAP_SPELL[self.spelling][1]
            self.bare = False
        self.kind = 'mapping'

    def children(self):
        return (self.k, self.v)

    def render(self):
        if self.bare:
            return self.spelling.replace('_bare', '')
        if self.spelling in ('Counter', 'counter'):
            return f"Counter[{self.k.render()}]"
        return f"{self.spelling}[{self.k.render()}, {self.v.render()}]"

    def build(self):
        if self.bare:
            return MAP_BARE[self.spelling][0]
        if self.spelling == 'Counter':
            return t.Counter[self.k.pytype()]
        if self.spelling == 'counter':
            return collections.Counter[self.k.pytype()]
        return MAP_SPELL[self.spelling][0](self.k.pytype(), self.v.pytype())

    def valid(self, hd=False):
        assert not hd, "mappings are never hashable data"
        return st.dictionaries(self.k.valid(hd=True), self.v.valid(), max_size=3)

    def subpairs(self, v):
        if not is_map(v):
            return []
        return [(self.k, k) for k in v] + [(self.v, x) for x in v.values()]

    def ref(self, v):
        if not is_map(v):
            return Rej('not a mapping')
        items = list(v.items())
        kparts = [self.k.ref(k) for (k, _) in items]
        vparts = [self.v.ref(x) for (_, x) in items]
        bad = combine([*kparts, *vparts])
        if bad is not None:
            return bad

        def has_nan(x: t.Any, depth: int = 0) -> bool:
            if isinstance(x, (tuple, frozenset)) and depth < 6:
                return any(has_nan(y, depth + 1) for y in x)
            try:
                return bool(x != x)
            except Exception:
                return False

        def mk():
            d = {kp.image: vp.image for (kp, vp) in zip(kparts, vparts)}  # type: ignore
            if len(d) != len(items):
                raise _Collide()
            if sum(1 for k in d if has_nan(k)) > 1:
                # several keys holding a NaN (of Decimal / float): equal to nothing, themselves included, so they stay apart as typed
                # keys although they are written alike - the same cell as above, seen from the other side
                raise _Collide()
            return self.ctor(d)
        try:
            return Acc(mk())
        except _Collide:
            return Unspec('two distinct keys denote the same typed key: which entry survives is not documented')
        except Exception as e:
            return Rej(f'constructor raised {type(e).__name__}')


class Struct(Node):
    """Struct type literal {'k': T}."""
    kind = 'struct-literal'

    def __init__(self, spec):
        super().__init__(spec)
        self.fields: t.List[t.Tuple[str, Node]] = [(k, node(s)) for (k, s) in spec[1]]

    def children(self):
        return [n for (_, n) in self.fields]

    def own_names(self):
        return [k for (k, _) in self.fields]

    def render(self):
        return '{' + ', '.join(f"{k!r}: {n.render()}" for (k, n) in self.fields) + '}'

    def build(self):
        return {k: n.pytype() for (k, n) in self.fields}

    def valid(self, hd=False):
        assert not hd
        return st.fixed_dictionaries({k: n.valid() for (k, n) in self.fields})

    def subpairs(self, v):
        if not is_map(v):
            return []
        fd = dict(self.fields)
        return [(fd[k], x) for (k, x) in v.items() if isinstance(k, str) and k in fd]

    def ref(self, v):
        if not is_map(v):
            return Rej('not a mapping')
        fd = dict(self.fields)
        parts: t.List[Verdict] = []
        out: t.Dict[str, t.Any] = {}
        for (k, x) in v.items():
            try:
                known = k in fd
            except TypeError:
                known = False
            if not known:
                return Rej(f'unknown key {k!r}')
        for (k, x) in v.items():
            p = fd[k].ref(x)
            parts.append(p)
            if isinstance(p, Acc):
                out[k] = p.image
        for k in fd:
            if k not in v:
                return Rej(f'missing key {k!r}')
        bad = combine(parts)
        if bad is not None:
            return bad
        return Acc(out)


class Union(Node):
    def __init__(self, spec):
        super().__init__(spec)
        self.spelling: str = spec[1]     # 'Union' | 'Optional' | 'OptionalFirst'
        self.members: t.List[Node] = [node(s) for s in spec[2]]
        none = Scalar(('s', 'none'))
        if self.spelling == 'Optional':
            self.members = [*self.members, none]
        elif self.spelling == 'OptionalFirst':
            self.members = [none, *self.members]
        self.kind = 'union'
        self.hashable = all(m.hashable for m in self.members)

    def children(self):
        return self.members

    def render(self):
        if self.spelling == 'Optional' and len(self.members) == 2:
            return f"Optional[{self.members[0].render()}]"
        return f"Union[{', '.join(m.render() for m in self.members)}]"

    def build(self):
        tys = tuple(m.pytype() for m in self.members)
        if self.spelling == 'Optional':
            inner = tys[:-1]
            return t.Optional[t.Union[inner]]  # type: ignore
        return t.Union[tys]  # type: ignore

    def valid(self, hd=False):
        return st.one_of(*(m.valid(hd) for m in self.members))

    def subpairs(self, v):
        return [(m, v) for m in self.members]

    def ref_index(self, v) -> t.Tuple[Verdict, t.Optional[int]]:
        for (i, m) in enumerate(self.members):
            r = m.ref(v)
            if isinstance(r, Acc):
                if TRACE[0] is not None:
                    TRACE[0].append((self.render()[:60], i))
                return r, i
            if isinstance(r, Unspec):
                return r, None
        return Rej('no member accepts'), None

    def ref(self, v):
        return self.ref_index(v)[0]


# ---- conditions (shared, small; the full grammar lives in the C13 check) ----

def _cond_build(c: t.Tuple[t.Any, ...]) -> t.Any:
    import pane.annotations as A
    k = c[0]
    if k in ('Positive', 'Negative', 'NonPositive', 'NonNegative', 'Finite', 'Empty', 'NonEmpty'):
        return getattr(A, k)
    if k == 'val_range':
        return A.val_range(min=c[1], max=c[2])
    if k == 'len_range':
        return A.len_range(min=c[1], max=c[2])
    if k == 'true':
        return A.Condition(_always, name='anything')
    if k == 'even':
        return A.Condition(_even, name='even')
    if k == 'partial_gt':
        # a predicate without a __name__ (functools.partial, any callable object), and no name= given
        import functools
        import operator
        return A.Condition(functools.partial(operator.lt, c[1]))
    if k == 'raises':
        return A.Condition(_raiser, name='raiser')
    if k == 'all':
        return A.Condition.all(*(_cond_build(x) for x in c[1]))
    if k == 'any':
        return A.Condition.any(*(_cond_build(x) for x in c[1]))
    if k == 'shape':
        return A.shape(list(c[1]) if c[2] == 'list' else tuple(c[1]))
    if k == 'bcast':
        return A.broadcastable(tuple(c[1]))
    if k == 'user_gt':
        return A.Condition(_UserGt(c[1]), name=f'greater than {c[1]}')
    if k == 'raises_if':
        return A.Condition(_RaisesIf(c[1]), name=f'raises at {c[1]}')
    if k == 'and':
        return _cond_build(c[1]) & _cond_build(c[2])
    if k == 'or':
        return _cond_build(c[1]) | _cond_build(c[2])
    if k == 'not':
        return ~_cond_build(c[1])
    raise ValueError(c)


def _even(v):
    return v % 2 == 0


def _always(v):
    return True


class _UserGt:
    def __init__(self, k):
        self.k = k
        self.__name__ = f'user_gt_{k}'

    def __call__(self, v):
        return v > self.k


class _RaisesIf:
    def __init__(self, k):
        self.k = k
        self.__name__ = f'raises_if_{k}'

    def __call__(self, v):
        if v == self.k:
            raise PredicateBoom(f"tok_predicate_boom_{self.k}")
        return True


def _bcast_ref(a: t.Sequence[int], b: t.Sequence[int]) -> bool:
    """Reference rule for "an array of shape a can be broadcast *to* shape b" (independent of numpy and of pane.util):
    a has no more axes than b and, aligned from the right, every axis of a equals b's or is 1."""
    (a, b) = (tuple(a), tuple(b))
    if len(a) > len(b):
        return False
    return all(x == y or x == 1 for (x, y) in zip(reversed(a), reversed(b)))


class PredicateBoom(Exception):
    pass


def _raiser(v):
    raise PredicateBoom("tok_predicate_boom")


def cond_eval(c: t.Tuple[t.Any, ...], x: t.Any) -> bool:
    """Independent evaluator; raises when the predicate raises."""
    k = c[0]
    if k == 'Positive':
        return bool(x > 0)
    if k == 'Negative':
        return bool(x < 0)
    if k == 'NonPositive':
        return bool(x <= 0)
    if k == 'NonNegative':
        return bool(x >= 0)
    if k == 'Finite':
        # the arithmetic predicate: every int (and Fraction) is finite, also one too large for a float
        if isinstance(x, complex):
            return math.isfinite(x.real) and math.isfinite(x.imag)
        return True if isinstance(x, (int, fractions.Fraction)) else math.isfinite(x)
    if k == 'Empty':
        return len(x) == 0
    if k == 'NonEmpty':
        return len(x) != 0
    if k == 'partial_gt':
        return bool(x > c[1])
    if k == 'val_range':
        ok = True
        if c[1] is not None:
            ok = ok and bool(x >= c[1])
        if c[2] is not None:
            ok = ok and bool(x <= c[2])
        return ok
    if k == 'len_range':
        ok = True
        if c[1] is not None:
            ok = ok and len(x) >= c[1]
        if c[2] is not None:
            ok = ok and len(x) <= c[2]
        return ok
    if k == 'true':
        return True
    if k == 'even':
        return x % 2 == 0
    if k == 'raises':
        raise PredicateBoom()
    if k == 'all':
        return all(cond_eval(y, x) for y in c[1])
    if k == 'any':
        return any(cond_eval(y, x) for y in c[1])
    if k == 'shape':
        return tuple(x.shape) == tuple(c[1])
    if k == 'bcast':
        return _bcast_ref(x.shape, c[1])
    if k == 'user_gt':
        return bool(x > c[1])
    if k == 'raises_if':
        if x == c[1]:
            raise PredicateBoom()
        return True
    if k == 'and':
        return cond_eval(c[1], x) and cond_eval(c[2], x)
    if k == 'or':
        return cond_eval(c[1], x) or cond_eval(c[2], x)
    if k == 'not':
        return not cond_eval(c[1], x)
    raise ValueError(c)


def cond_render(c) -> str:
    k = c[0]
    if k in ('val_range', 'len_range'):
        return f"{k}(min={c[1]!r}, max={c[2]!r})"
    if k in ('all', 'any'):
        return f"Condition.{k}({', '.join(cond_render(x) for x in c[1])})"
    if k in ('shape', 'bcast'):
        return f"{'shape' if k == 'shape' else 'broadcastable'}({list(c[1]) if k == 'shape' and c[2] == 'list' else tuple(c[1])})"
    if k in ('user_gt', 'raises_if', 'partial_gt'):
        return f"{k}({c[1]})"
    if k in ('and', 'or'):
        return f"({cond_render(c[1])} {'&' if k == 'and' else '|'} {cond_render(c[2])})"
    if k == 'not':
        return f"~{cond_render(c[1])}"
    return k


class Ann(Node):
    def __init__(self, spec):
        super().__init__(spec)
        self.inner: Node = node(spec[1])
        self.conds: t.Tuple[t.Any, ...] = tuple(spec[2])
        self.kind = 'annotated'
        self.hashable = self.inner.hashable

    def children(self):
        return (self.inner,)

    def render(self):
        return f"Annotated[{self.inner.render()}, {', '.join(cond_render(c) for c in self.conds)}]"

    def build(self):
        return t.Annotated[(self.inner.pytype(), *(_cond_build(c) for c in self.conds))]  # type: ignore

    def valid(self, hd=False):
        return self.inner.valid(hd).filter(lambda v: isinstance(self.ref(v), Acc))

    def subpairs(self, v):
        return [(self.inner, v)]

    def ref(self, v):
        r = self.inner.ref(v)
        if not isinstance(r, Acc):
            return r
        try:
            ok = all(cond_eval(c, r.image) for c in self.conds)
        except Exception:
            return Rej('predicate raised')
        return r if ok else Rej('condition failed')


class TypeVarN(Node):
    """A TypeVar used as a type: bound -> the bound, constraints -> their union, free -> Any."""

    def __init__(self, spec):
        super().__init__(spec)
        self.mode: str = spec[1]      # 'free' | 'bound' | 'constrained'
        if self.mode == 'free':
            self.inner: Node = Scalar(('s', 'any'))
        elif self.mode == 'bound':
            self.inner = node(spec[2])
        else:
            self.inner = Union(('union', 'Union', tuple(spec[2])))
        self.kind = f'typevar:{self.mode}'
        self.hashable = self.inner.hashable

    def children(self):
        return (self.inner,)

    def render(self):
        if self.mode == 'free':
            return "TypeVar('T')"
        if self.mode == 'bound':
            return f"TypeVar('T', bound={self.inner.render()})"
        return f"TypeVar('T', {', '.join(m.render() for m in self.inner.members)})"  # type: ignore

    def build(self):
        if self.mode == 'free':
            return t.TypeVar('T')
        if self.mode == 'bound':
            b = self.inner.pytype()
            return t.TypeVar('T', bound=type(None) if b is None else b)    # (bound=None means 'no bound')
        ms = [m.pytype() for m in self.inner.members]  # type: ignore
        return t.TypeVar('T', *ms)  # type: ignore

    def valid(self, hd=False):
        return self.inner.valid(hd)

    def subpairs(self, v):
        return [(self.inner, v)]

    def ref(self, v):
        return self.inner.ref(v)


@dataclasses.dataclass
class VolImage:
    """Reference image of a pane.types.ValueOrList."""
    is_val: bool
    inner: t.Any


class Vol(Node):
    def __init__(self, spec):
        super().__init__(spec)
        self.bare = spec[1] is None
        self.elem: Node = Scalar(('s', 'any')) if self.bare else node(spec[1])
        self.lst = Seq(('seq', 'list_bare'))
        self.lst.elem = self.elem     # share the element node (one type object per position)
        self.lst.bare = False
        self.kind = 'ValueOrList'

    def children(self):
        return (self.elem,)

    def render(self):
        return 'ValueOrList' if self.bare else f"ValueOrList[{self.elem.render()}]"

    def build(self):
        from pane.types import ValueOrList
        return ValueOrList if self.bare else ValueOrList[self.elem.pytype()]

    def valid(self, hd=False):
        assert not hd
        return st.one_of(self.elem.valid(), self.lst.valid())

    def subpairs(self, v):
        return [(self.elem, v)] + ([(self.elem, x) for x in v] if is_seq(v) else [])

    def ref(self, v):
        r = self.elem.ref(v)
        if isinstance(r, Acc):
            if TRACE[0] is not None:
                TRACE[0].append((self.render()[:60], 0))
            return Acc(VolImage(True, r.image))
        if isinstance(r, Unspec):
            return r
        r2 = self.lst.ref(v)
        if isinstance(r2, Acc):
            if TRACE[0] is not None:
                TRACE[0].append((self.render()[:60], 1))
            return Acc(VolImage(False, r2.image))
        return r2


# --------------------------------------------------------------------------
# factory

_KINDS: t.Dict[str, t.Callable[[t.Any], Node]] = {
    's': Scalar, 'sub': Sub, 'lit': Lit, 'enum': Enum, 'seq': Seq, 'tup': Tup, 'map': Map,
    'struct': Struct, 'union': Union, 'ann': Ann, 'tv': TypeVarN, 'vol': Vol,
}


def _totuple(x: t.Any) -> t.Any:
    """Specs come back from JSON as lists; normalise to tuples (dict specs stay dicts)."""
    if isinstance(x, list):
        return tuple(_totuple(y) for y in x)
    if isinstance(x, tuple):
        return tuple(_totuple(y) for y in x)
    return x


def node(spec: t.Any) -> Node:
    spec = _totuple(spec)
    k = spec[0]
    if k == 'cls':
        from . import cg
        return cg.ClsNode(spec)
    if k == 'tagged':
        from . import cg
        return cg.TaggedNode(spec)
    if k == 'gbox':
        from . import cg
        return cg.GBoxNode(spec)
    if k == 'nd':
        from . import npn
        return npn.NdNode(spec)
    return _KINDS[k](spec)


# --------------------------------------------------------------------------
# spec strategies

HASHABLE_SCALARS = ['int', 'str', 'bytes', 'bool', 'none', 'float', 'Fraction', 'Decimal', 'date', 'PurePosixPath']


def scalar_specs(names: t.Sequence[str] = SCALAR_NAMES) -> st.SearchStrategy[t.Any]:
    common = ['int', 'float', 'str', 'bool', 'none', 'bytes']
    plain = st.one_of(st.sampled_from(common), st.sampled_from(list(names))).map(lambda n: ('s', n))
    if 'none' not in names:
        return plain
    # `None` written as such (the typing convention for NoneType; docs/index.md lists `None` as a supported type).  Inside a
    # typing generic it becomes NoneType anyway; at the top level and inside struct / tuple type literals pane sees the bare None.
    return st.one_of(plain, plain, plain, plain, plain, plain, plain, st.just(('s', 'none', 'bare')))


lit_values = st.one_of(st.sampled_from(['a', 'b', 'x', '', 'tag']), st.integers(-2, 3), st.booleans(), st.none(), st.sampled_from([b'a', b'']))
# literal values in a canonical order: typing caches subscriptions by *equal* arguments and Literal equality ignores order,
# so ValueOrList[Literal[0, 'a']] may hand back an alias created earlier for Literal['a', 0]
lit_specs = st.lists(lit_values, min_size=1, max_size=3, unique_by=lambda v: (type(v).__name__, v)).map(
    lambda vs: ('lit', tuple(sorted(vs, key=lambda v: (type(v).__name__, repr(v))))))
enum_specs = st.sampled_from(sorted(usertypes.ENUMS)).map(lambda n: ('enum', n))
sub_specs = st.sampled_from(sorted(usertypes.SUBCLASSES)).map(lambda n: ('sub', n))

COND_NUM = st.one_of(
    st.sampled_from([('Positive',), ('Negative',), ('NonPositive',), ('NonNegative',), ('even',), ('Finite',), ('raises',)]),
    st.tuples(st.just('val_range'), st.one_of(st.none(), st.integers(-3, 3)), st.one_of(st.none(), st.integers(0, 6))),
)
COND_LEN = st.one_of(
    st.sampled_from([('Empty',), ('NonEmpty',)]),
    st.tuples(st.just('len_range'), st.one_of(st.none(), st.integers(0, 2)), st.one_of(st.none(), st.integers(1, 3))),
)


def hashable_specs() -> st.SearchStrategy[t.Any]:
    base = st.one_of(st.sampled_from(HASHABLE_SCALARS).map(lambda n: ('s', n)), lit_specs, enum_specs, sub_specs)
    inner_seq = st.tuples(st.just('seq'), st.sampled_from(['frozenset', 'TupleVar', 'FrozenSet']), base)
    return st.one_of(
        base, base,
        st.tuples(st.just('tup'), st.sampled_from(['Tuple', 'tuple']), st.lists(base, max_size=2).map(tuple)),
        # hashable containers nested in hashable containers (a frozenset inside a tuple key, a tuple of tuples ...)
        st.tuples(st.just('tup'), st.sampled_from(['Tuple', 'tuple']), st.tuples(inner_seq, base)),
        st.tuples(st.just('seq'), st.sampled_from(['TupleVar', 'frozenset']), inner_seq),
        st.tuples(st.just('seq'), st.sampled_from(['TupleVar', 'frozenset', 'FrozenSet', 'Sequence']), base),
        st.tuples(st.just('union'), st.just('Union'), st.lists(base, min_size=2, max_size=3, unique_by=repr).map(tuple)),
    )


def type_specs(max_leaves: int = 4, classes: t.Optional[st.SearchStrategy[t.Any]] = None,
               extra: t.Optional[st.SearchStrategy[t.Any]] = None) -> st.SearchStrategy[t.Any]:
    """Specs for typing-expressible types (no struct/tuple literals: typing rejects them inside generics)."""
    leaves = [scalar_specs(), scalar_specs(), lit_specs, enum_specs, sub_specs,
              st.sampled_from([*SEQ_BARE, *MAP_BARE]).map(lambda s: ('seq', s) if s in SEQ_BARE else ('map', s))]
    if classes is not None:
        leaves.append(classes)
    if extra is not None:
        leaves.append(extra)
    leaf = st.one_of(*leaves)

    def extend(ch: st.SearchStrategy[t.Any]) -> st.SearchStrategy[t.Any]:
        plain_seq = [s for s in SEQ_SPELL if s not in SETLIKE]
        set_seq = [s for s in SEQ_SPELL if s in SETLIKE]
        return st.one_of(
            st.tuples(st.just('seq'), st.sampled_from(plain_seq), ch),
            st.tuples(st.just('seq'), st.sampled_from(set_seq), hashable_specs()),
            st.tuples(st.just('tup'), st.sampled_from(['Tuple', 'tuple']), st.lists(ch, max_size=3).map(tuple)),
            st.tuples(st.just('map'), st.sampled_from(sorted(MAP_SPELL)), hashable_specs(), ch),
            st.tuples(st.just('map'), st.sampled_from(['Counter', 'counter']), hashable_specs()),
            st.tuples(st.just('union'), st.sampled_from(['Union', 'Union', 'Optional', 'OptionalFirst']),
                      st.lists(ch, min_size=1, max_size=3, unique_by=repr).map(tuple)),
            st.tuples(st.just('ann'), st.sampled_from([('s', 'int'), ('s', 'float')]), st.lists(COND_NUM, min_size=1, max_size=2).map(tuple)),
            st.tuples(st.just('ann'), st.tuples(st.just('seq'), st.sampled_from(['List', 'Sequence', 'Set']), hashable_specs()),
                      st.lists(COND_LEN, min_size=1, max_size=2).map(tuple)),
            st.one_of(
                st.tuples(st.just('tv'), st.just('free')),
                st.tuples(st.just('tv'), st.just('bound'), ch),
                st.tuples(st.just('tv'), st.just('constrained'), st.lists(ch, min_size=2, max_size=3, unique_by=repr).map(tuple)),
                st.tuples(st.just('vol'), st.one_of(st.none(), ch)),
            ),
        )
    return st.recursive(leaf, extend, max_leaves=max_leaves)


def top_specs(max_leaves: int = 4, classes: t.Optional[st.SearchStrategy[t.Any]] = None,
              extra: t.Optional[st.SearchStrategy[t.Any]] = None) -> st.SearchStrategy[t.Any]:
    """Type specs allowed at top level: adds struct / tuple literals (possibly nested in each other)."""
    inner = type_specs(max_leaves, classes, extra)
    keys = st.sampled_from(['x', 'y', 'k', 'some_key', 'tag'])
    lit = st.recursive(
        inner,
        lambda ch: st.one_of(
            st.lists(st.tuples(keys, ch), max_size=3, unique_by=lambda kv: kv[0]).map(lambda kv: ('struct', tuple(kv))),
            st.lists(ch, max_size=3).map(lambda es: ('tup', 'lit', tuple(es))),
        ),
        max_leaves=3,
    )
    return st.one_of(inner, inner, inner, inner, lit)


def ref_traced(nd: Node, v: t.Any) -> t.Tuple[Verdict, t.List[t.Any]]:
    """Reference verdict plus the sequence of (union node, chosen member) decisions taken on the accepting path."""
    TRACE[0] = []
    try:
        r = nd.ref(v)
        return r, sorted(TRACE[0])
    finally:
        TRACE[0] = None


def plainify(v: t.Any, in_key: bool = False) -> t.Any:
    """Exotic interchange containers -> plain list / dict (tuples inside mapping keys, where hashability matters)."""
    if is_map(v):
        return {plainify(k, True): plainify(x) for (k, x) in v.items()}
    if is_seq(v):
        items = [plainify(x, in_key) for x in v]
        return tuple(items) if in_key else items
    if is_array(v):
        return plainify(v.tolist(), in_key)
    # instances of subclasses of interchange types (user subclasses, mixin enum members) -> the plain value
    if isinstance(v, enum.Enum):
        return plainify(v.value, in_key)
    if type(v) is bytearray:
        return bytes(v)     # (serialised as bytes: at an untyped position a bytearray does not come back as one)
    for base in (bool, int, float, complex, str, bytes, bytearray):
        if isinstance(v, base):
            return v if type(v) is base else base(v) if base is not str else str.__str__(v)
    return v
