"""
Runner shared by every property check.

A property module (pv/props/cNN.py) exposes

    ID, RULE, ASSUMPTIONS, LEVEL_NOTE (strings / list of strings)
    suites(tier) -> list of Suite

and each Suite is either a Hypothesis search (``strategy``) or an exhaustive
sweep (``cases``), with one ``check(case, ctx)`` oracle function.  The runner
fans a suite out over worker processes, collects failures bucketed by
root-cause key instead of stopping at the first, shrinks one example per
unknown key in a second pass, writes replay files and the evidence file, and
turns the lot into the exit code the harness expects:

    0  held on everything explored (KNOWN-FINDING lines allowed)
    1  at least one ``VIOLATION property=<id> replay=<path>`` line
    2  the harness itself is broken (never a verdict about pane)
"""

from __future__ import annotations

import dataclasses
import fnmatch
import hashlib
import importlib
import json
import os
import sys
import time
import traceback
import typing as t

from . import codec

ROOT = os.path.dirname(os.path.dirname(os.path.abspath(__file__)))
NWORKERS = int(os.environ.get('PV_WORKERS', '16'))


# --------------------------------------------------------------------------
# what a check sees


class HarnessError(Exception):
    """The check itself is wrong (generator bug, model self-check failed)."""


class StopRun(BaseException):
    """Wall-clock budget reached: end the campaign early (inconclusive, not a violation)."""


@dataclasses.dataclass
class Failure:
    oracle: str
    klass: str
    detail: str
    case: t.Any = None            # optional: the replayable case, when it is not the case the suite handed to check()
    suite: t.Optional[str] = None  # ... and the suite that replays it

    @property
    def key(self) -> str:
        return f"{self.oracle}/{self.klass}"


class Ctx:
    """Per-case recorder handed to ``check``."""

    __slots__ = ('fails', 'labels', 'nt', 'excluded', 'evals', 'note')

    def __init__(self):
        self.fails: t.List[Failure] = []
        self.labels: t.List[str] = []
        self.nt: bool = False
        self.excluded: t.List[str] = []
        self.evals: int = 0
        self.note: t.Optional[str] = None

    def fail(self, oracle: str, klass: str, detail: str = '', case: t.Any = None, suite: t.Optional[str] = None) -> None:
        self.fails.append(Failure(oracle, klass, detail[:1500], case, suite))

    def label(self, *labels: str) -> None:
        self.labels.extend(labels)

    def nontrivial(self, flag: bool = True) -> None:
        self.nt = self.nt or bool(flag)

    def exclude(self, reason: str) -> None:
        self.excluded.append(reason)

    def evaluated(self, n: int = 1) -> None:
        """Count oracle evaluations (a case may evaluate several oracles)."""
        self.evals += n


@dataclasses.dataclass
class Suite:
    name: str
    check: t.Callable[[t.Any, Ctx], None]
    strategy: t.Optional[t.Callable[[], t.Any]] = None     # -> hypothesis strategy
    cases: t.Optional[t.Callable[[int, int], t.Iterable[t.Any]]] = None  # exhaustive (shard, nshards)
    examples: int = 200            # per worker, for strategy suites
    budget_s: float = 60.0         # per worker wall-clock cap (ends early, inconclusive)
    render: t.Optional[t.Callable[[t.Any], t.Any]] = None
    stateful: t.Optional[t.Callable[[], t.Any]] = None     # -> RuleBasedStateMachine class taking a ctx factory
    step_count: int = 50
    exhaustive: bool = False


def load_prop(pid: str):
    return importlib.import_module(f"pv.props.{pid.lower()}")


# --------------------------------------------------------------------------
# exception triage: pane's fault or ours?


def _pane_dir() -> str:
    import pane
    return os.path.dirname(os.path.abspath(pane.__file__))


def triage_exception(e: BaseException) -> t.Optional[str]:
    """
    If ``e`` was raised from inside the pane package, return a root-cause
    class string ``ExcType@file:function`` (innermost pane frame).  Otherwise
    return None: the exception is the harness's own.
    """
    pd = _pane_dir()
    tb = traceback.extract_tb(e.__traceback__)
    inner = None
    for fr in tb:
        if not fr.filename.startswith('<') and os.path.abspath(fr.filename).startswith(pd + os.sep):
            inner = fr
    if inner is None:
        return None
    # the raising frame must be inside pane or below it (stdlib called by pane);
    # if pv code appears *after* the last pane frame, pane called back into a
    # harness callable (predicate, hook) and the exception is ours.
    after = tb[tb.index(inner) + 1:]
    for fr in after:
        if not fr.filename.startswith('<') and os.path.abspath(fr.filename).startswith(ROOT + os.sep):
            return None
    return f"{type(e).__name__}@{os.path.basename(inner.filename)}:{inner.name}"


class CaseTimeout(BaseException):
    """One case ran into the watchdog (not an Exception: the code under test must not be able to swallow it)."""


CASE_TIMEOUT_S = float(os.environ.get('PV_CASE_TIMEOUT', '120'))


def _on_alarm(signum: int, frame: t.Any) -> None:
    raise CaseTimeout()


def run_check(suite: Suite, case: t.Any) -> Ctx:
    """One case through the suite's check.  A case normally takes milliseconds; one that is still running after CASE_TIMEOUT_S
    (an error tree that contains itself and is printed along every path, say) is abandoned: that is *inconclusive* (the shard ends
    as if its time budget were used up, failures recorded before stand), never a violation by itself."""
    import signal
    import threading
    ctx = Ctx()
    armed = threading.current_thread() is threading.main_thread() and hasattr(signal, 'setitimer')
    if armed:
        old = signal.signal(signal.SIGALRM, _on_alarm)
        signal.setitimer(signal.ITIMER_REAL, CASE_TIMEOUT_S)
    try:
        suite.check(case, ctx)
    except CaseTimeout:
        ctx.note = 'timeout'
        ctx.exclude(f"case abandoned after {CASE_TIMEOUT_S:.0f}s (inconclusive)")
    except HarnessError:
        raise
    except StopRun:
        raise
    except Exception as e:
        klass = triage_exception(e)
        if klass is None:
            raise HarnessError(f"check raised {type(e).__name__}: {e}\n{traceback.format_exc()}") from e
        ctx.fail('unexpected-exception', klass, traceback.format_exc()[-1200:])
    finally:
        if armed:
            signal.setitimer(signal.ITIMER_REAL, 0)
            signal.signal(signal.SIGALRM, old)
    if ctx.evals == 0:
        ctx.evals = 1
    return ctx


# --------------------------------------------------------------------------
# worker


def derive_seed(seed: int, shard: int, name: str) -> int:
    h = hashlib.sha256(f"{seed}:{shard}:{name}".encode()).digest()
    return int.from_bytes(h[:8], 'big')


def _case_hash(case: t.Any) -> int:
    try:
        s = codec.dumps(case)
    except Exception:
        s = repr(case)
    return int.from_bytes(hashlib.blake2b(s.encode('utf-8', 'surrogatepass'), digest_size=8).digest(), 'big')


class _Acc:
    def __init__(self):
        self.evaluations = 0
        self.cases = 0
        self.labels: t.Dict[str, int] = {}
        self.excluded: t.Dict[str, int] = {}
        self.nt: t.Set[int] = set()
        self.failures: t.Dict[str, t.Dict[str, t.Any]] = {}
        self.samples: t.Dict[str, t.List[t.Any]] = {}
        self.budget_hit = False
        self.extra: t.Dict[str, t.Any] = {}

    def add(self, suite: Suite, case: t.Any, ctx: Ctx, shard: int):
        self.cases += 1
        self.evaluations += ctx.evals
        for lb in ctx.labels:
            self.labels[lb] = self.labels.get(lb, 0) + 1
        for ex in ctx.excluded:
            self.excluded[ex] = self.excluded.get(ex, 0) + 1
        if ctx.nt:
            self.nt.add(_case_hash(case))
        # samples: a few per primary label
        lb0 = ctx.labels[0] if ctx.labels else 'case'
        bucket = self.samples.setdefault(f"{suite.name}:{lb0}", [])
        if len(bucket) < 2 and (ctx.nt or not bucket):
            try:
                bucket.append(suite.render(case) if suite.render else codec.short(case, 300))
            except Exception as e:  # rendering must not kill a run
                bucket.append(f"<render failed: {type(e).__name__}>")
        for f in ctx.fails:
            rec = self.failures.get(f.key)
            try:
                enc = codec.dumps(case if f.case is None else f.case)
            except Exception:
                enc = None
            sname = f.suite or suite.name
            if rec is None:
                self.failures[f.key] = {
                    'key': f.key, 'suite': sname, 'shard': shard, 'count': 1,
                    'detail': f.detail, 'case': enc, 'size': len(enc) if enc else 1 << 30,
                }
            else:
                rec['count'] += 1
                if enc is not None and len(enc) < rec['size']:
                    rec.update(case=enc, size=len(enc), detail=f.detail, suite=sname, shard=shard)

    def result(self) -> t.Dict[str, t.Any]:
        return {
            'evaluations': self.evaluations, 'cases': self.cases, 'labels': self.labels,
            'excluded': self.excluded, 'nt': list(self.nt), 'failures': self.failures,
            'samples': self.samples, 'budget_hit': self.budget_hit, 'extra': self.extra,
        }


def _hyp_settings(examples: int, shrink: bool = False, step_count: t.Optional[int] = None):
    from hypothesis import settings, HealthCheck, Phase
    kw: t.Dict[str, t.Any] = dict(
        max_examples=examples, database=None, deadline=None, derandomize=False,
        report_multiple_bugs=False, suppress_health_check=list(HealthCheck),
        phases=[Phase.generate, Phase.shrink] if shrink else [Phase.generate],
    )
    if step_count is not None:
        kw['stateful_step_count'] = step_count
    return settings(**kw)


def _cleanup(pid: str) -> None:
    """Pool workers leave through os._exit, so atexit handlers never run: properties with scratch files clean up here."""
    try:
        fn = getattr(load_prop(pid), 'cleanup', None)
        if fn is not None:
            fn()
    except Exception:
        pass


def worker(args: t.Tuple[str, str, int, int, int, t.Optional[str]]) -> t.Dict[str, t.Any]:
    try:
        return _worker(args)
    finally:
        _cleanup(args[0])


def _worker(args: t.Tuple[str, str, int, int, int, t.Optional[str]]) -> t.Dict[str, t.Any]:
    """Explore one shard of every suite of one property.  Never raises for a pane defect."""
    (pid, tier, seed, shard, nshards, only_suite) = args
    import warnings
    warnings.simplefilter('ignore')
    acc = _Acc()
    try:
        prop = load_prop(pid)
        for suite in prop.suites(tier):
            if only_suite is not None and suite.name != only_suite:
                continue
            _run_suite(pid, suite, seed, shard, nshards, acc)
        if hasattr(prop, 'worker_extra'):
            acc.extra = prop.worker_extra()
    except HarnessError as e:
        r = acc.result()
        r['harness_error'] = str(e)
        return r
    except Exception as e:
        r = acc.result()
        r['harness_error'] = f"{type(e).__name__}: {e}\n{traceback.format_exc()}"
        return r
    return acc.result()


def _run_suite(pid: str, suite: Suite, seed: int, shard: int, nshards: int, acc: _Acc) -> None:
    t0 = time.monotonic()

    if suite.cases is not None:
        for case in suite.cases(shard, nshards):
            ctx = run_check(suite, case)
            acc.add(suite, case, ctx, shard)
            if time.monotonic() - t0 > suite.budget_s or ctx.note == 'timeout':
                acc.budget_hit = True
                break
        return

    from hypothesis import given, seed as hseed
    sd = derive_seed(seed, shard, f"{pid}:{suite.name}")

    if suite.stateful is not None:
        from hypothesis.stateful import run_state_machine_as_test
        machine = suite.stateful()

        def on_case(case, ctx):
            acc.add(suite, case, ctx, shard)
            if time.monotonic() - t0 > suite.budget_s:
                acc.budget_hit = True
                raise StopRun()
        machine.pv_report = staticmethod(on_case)  # type: ignore
        from hypothesis.errors import Flaky
        try:
            run_state_machine_as_test(hseed(sd)(machine), settings=_hyp_settings(suite.examples, step_count=suite.step_count))
        except StopRun:
            pass
        except Flaky:
            # The machine's later draws depend on what the code under test did earlier (which types got built, which calls
            # succeeded).  When that code answers differently from run to run - the very thing a history property is about: a
            # recycled id, a stale cache - Hypothesis finds its own replay inconsistent.  With failures already recorded (each
            # with its own replayable history) they stand and the exploration of this shard ends here; without any, the
            # inconsistency is the harness's own problem and is reported as such.
            if not any(rec.get('suite') == suite.name for rec in acc.failures.values()):
                raise
            acc.budget_hit = True
        return

    assert suite.strategy is not None
    strat = suite.strategy()

    @hseed(sd)
    @_hyp_settings(suite.examples)
    @given(strat)
    def explore(case):
        ctx = run_check(suite, case)
        acc.add(suite, case, ctx, shard)
        if time.monotonic() - t0 > suite.budget_s or ctx.note == 'timeout':
            acc.budget_hit = True
            raise StopRun()

    try:
        explore()
    except StopRun:
        pass


def shrink_worker(args: t.Tuple[str, str, int, int, str, str, float]) -> t.Optional[str]:
    try:
        return _shrink_worker(args)
    finally:
        _cleanup(args[0])


def _shrink_worker(args: t.Tuple[str, str, int, int, str, str, float]) -> t.Optional[str]:
    """Second pass: re-find ``key`` with the same seed, let Hypothesis shrink it, return the smallest case (encoded)."""
    (pid, tier, seed, shard, suite_name, key, budget) = args
    import warnings
    warnings.simplefilter('ignore')
    prop = load_prop(pid)
    suite = next(s for s in prop.suites(tier) if s.name == suite_name)
    if suite.strategy is None:
        return None
    from hypothesis import given, seed as hseed
    sd = derive_seed(seed, shard, f"{pid}:{suite.name}")
    best: t.Dict[str, t.Any] = {'enc': None, 'size': 1 << 30}
    t0 = time.monotonic()

    class _Hit(Exception):
        pass

    @hseed(sd)
    @_hyp_settings(suite.examples, shrink=True)
    @given(suite.strategy())
    def refind(case):
        if time.monotonic() - t0 > budget:
            raise StopRun()
        ctx = run_check(suite, case)
        if any(f.key == key for f in ctx.fails):
            try:
                enc = codec.dumps(case)
            except Exception:
                enc = None
            if enc is not None and len(enc) < best['size']:
                best.update(enc=enc, size=len(enc))
            raise _Hit()

    try:
        refind()
    except (StopRun, _Hit):
        pass
    except Exception:
        pass
    return best['enc']


# --------------------------------------------------------------------------
# known findings


def load_known(pid: str) -> t.List[t.Tuple[str, str]]:
    """-> [(key glob, description)] for ``finding:`` lines of this property."""
    path = os.path.join(ROOT, 'KNOWN_FINDINGS.txt')
    out: t.List[t.Tuple[str, str]] = []
    if not os.path.exists(path):
        return out
    for line in open(path, encoding='utf-8'):
        line = line.strip()
        if not line.startswith('finding:'):
            continue
        body = line[len('finding:'):].strip()
        head, _, desc = body.partition('::')
        fields = dict(p.split('=', 1) for p in head.split() if '=' in p)
        if fields.get('property') == pid and 'key' in fields:
            out.append((fields['key'], desc.strip()))
    return out


# --------------------------------------------------------------------------
# main


def merge(results: t.List[t.Dict[str, t.Any]]) -> t.Dict[str, t.Any]:
    m: t.Dict[str, t.Any] = {
        'evaluations': 0, 'cases': 0, 'labels': {}, 'excluded': {}, 'nt': set(),
        'failures': {}, 'samples': {}, 'budget_hit': False, 'harness_errors': [], 'extra': [],
    }
    for r in results:
        m['evaluations'] += r['evaluations']
        m['cases'] += r['cases']
        for (k, v) in r['labels'].items():
            m['labels'][k] = m['labels'].get(k, 0) + v
        for (k, v) in r['excluded'].items():
            m['excluded'][k] = m['excluded'].get(k, 0) + v
        m['nt'].update(r['nt'])
        for (k, rec) in r['failures'].items():
            cur = m['failures'].get(k)
            if cur is None:
                m['failures'][k] = dict(rec)
            else:
                cur['count'] += rec['count']
                if rec['size'] < cur['size']:
                    cnt = cur['count']
                    cur.update(rec)
                    cur['count'] = cnt
        for (k, v) in r['samples'].items():
            b = m['samples'].setdefault(k, [])
            for s in v:
                if len(b) < 2:
                    b.append(s)
        m['budget_hit'] = m['budget_hit'] or r['budget_hit']
        if r.get('harness_error'):
            m['harness_errors'].append(r['harness_error'])
        if r.get('extra'):
            m['extra'].append(r['extra'])
    return m


def write_evidence(pid: str, tier: str, seed: int, prop: t.Any, m: t.Dict[str, t.Any], wall: float,
                   known_lines: t.List[str], violations: t.List[t.Dict[str, t.Any]], exhaustive: bool) -> str:
    evdir = 'evidence' if not os.environ.get('PV_SELFTEST') else '.selftest-evidence'   # mutant runs are not evidence
    os.makedirs(os.path.join(ROOT, evdir), exist_ok=True)
    samples: t.List[t.Any] = []
    for (k, v) in sorted(m['samples'].items()):
        for s in v:
            samples.append({'class': k, 'case': s})
    samples = samples[:40]
    labels = dict(sorted(m['labels'].items(), key=lambda kv: -kv[1])[:120])
    cov: t.Dict[str, t.Any] = {
        'evaluations': int(m['evaluations']),
        'cases': int(m['cases']),
        'distinct_nontrivial': len(m['nt']),
        'rule': prop.RULE,
        'samples': samples,
        'classes': labels,
        'excluded': m['excluded'],
        'known_findings': known_lines,
        'budget_hit': bool(m['budget_hit']),
        'workers': NWORKERS,
    }
    if exhaustive:
        cov['exhaustive'] = True
    ex_suites = [s_.name for s_ in prop.suites(tier) if s_.exhaustive]
    if ex_suites and not m['budget_hit']:
        cov['exhaustive_suites'] = ex_suites    # finite sub-domains enumerated completely on this run
    extra = getattr(prop, 'merge_extra', None)
    if extra is not None and m['extra']:
        cov.update(extra(m['extra']))
    ev = {
        'property_id': pid, 'tier': tier, 'seed': seed, 'level': 'exploration',
        'coverage': cov,
        'assumptions': list(getattr(prop, 'ASSUMPTIONS', [])),
        'wall_s': round(wall, 2),
        'violations': len(violations),
    }
    if violations:
        ev['coverage']['violation_keys'] = [v['key'] for v in violations]
    path = os.path.join(ROOT, evdir, f'{pid}.json')
    tmp = path + '.tmp'
    with open(tmp, 'w', encoding='utf-8') as f:
        json.dump(ev, f, indent=1, ensure_ascii=True, default=str)
    os.replace(tmp, path)
    return path


def replay(pid: str, path: str) -> int:
    import warnings
    warnings.simplefilter('ignore')
    prop = load_prop(pid)
    rec = json.load(open(path, encoding='utf-8'))
    tier = rec.get('tier', 'quick')
    suite = next(s for s in prop.suites(tier) if s.name == rec['suite'])
    case = codec.dec(rec['case'])
    print(f"replaying {pid} suite={suite.name} key={rec.get('key')}")
    try:
        print("case:", suite.render(case) if suite.render else codec.short(case, 2000))
    except Exception:
        pass
    ctx = run_check(suite, case)
    if not ctx.fails:
        print("no oracle failed on this case")
        return 0
    for f in ctx.fails:
        print(f"FAILED {f.key}\n  {f.detail}")
    known = load_known(pid)
    unknown = [f for f in ctx.fails if not any(fnmatch.fnmatchcase(f.key, g) for (g, _) in known)]
    if unknown:
        print(f"VIOLATION property={pid} replay={path}")
        return 1
    for f in ctx.fails:
        print(f"KNOWN-FINDING: property={pid} {f.key}")
    return 0


def run_regress(pid: str, prop: t.Any, tier: str) -> t.List[t.Dict[str, t.Any]]:
    """Seconds-long replay tier: saved shrunk cases of repaired defects and of seeded changes."""
    d = os.path.join(ROOT, 'regress', pid)
    out: t.List[t.Dict[str, t.Any]] = []
    if not os.path.isdir(d):
        return out
    suites = {s.name: s for s in prop.suites(tier)}
    for fn in sorted(os.listdir(d)):
        if not fn.endswith('.json'):
            continue
        rec = json.load(open(os.path.join(d, fn), encoding='utf-8'))
        suite = suites.get(rec['suite'])
        if suite is None:
            continue
        case = codec.dec(rec['case'])
        ctx = run_check(suite, case)
        for f in ctx.fails:
            out.append({'key': f.key, 'suite': suite.name, 'shard': 0, 'count': 1, 'detail': f.detail,
                        'case': codec.dumps(case), 'size': 0, 'regress_file': os.path.join('regress', pid, fn)})
    return out


def main(pid: str, tier: str, seed: int, only_suite: t.Optional[str] = None) -> int:
    import multiprocessing as mp
    t0 = time.monotonic()
    os.environ.setdefault('PYTHONHASHSEED', str(derive_seed(seed, 0, 'hashseed') % 4294967295))
    try:
        prop = load_prop(pid)
        suites = prop.suites(tier)
    except Exception:
        traceback.print_exc()
        print(f"HARNESS-ERROR property={pid}: cannot load property module")
        return 2

    ctxm = mp.get_context('spawn')
    jobs = [(pid, tier, seed, i, NWORKERS, only_suite) for i in range(NWORKERS)]
    with ctxm.Pool(NWORKERS) as pool:
        results = pool.map(worker, jobs, chunksize=1)
        m = merge(results)

        if m['harness_errors']:
            print(f"HARNESS-ERROR property={pid}:\n" + m['harness_errors'][0][:3000])
            return 2

        # replay tier
        try:
            import warnings
            warnings.simplefilter('ignore')
            for rec in run_regress(pid, prop, tier):
                m['failures'].setdefault('regress:' + rec['key'], rec)
        except HarnessError as e:
            print(f"HARNESS-ERROR property={pid} (regress): {e}")
            return 2

        known = load_known(pid)
        known_lines: t.List[str] = []
        unknown: t.List[t.Dict[str, t.Any]] = []
        for (key, rec) in sorted(m['failures'].items()):
            k = rec['key']
            hit = next(((g, d) for (g, d) in known if fnmatch.fnmatchcase(k, g)), None)
            if hit is not None:
                line = f"KNOWN-FINDING: property={pid} {hit[1]} [key={k} seen={rec['count']}]"
                if line not in known_lines:
                    known_lines.append(line)
            else:
                unknown.append(rec)

        # shrink one example per unknown root cause (bounded)
        budget = 45.0 if tier == 'quick' else 240.0
        todo = [r for r in unknown if 'regress_file' not in r][:NWORKERS]
        if todo:
            sargs = [(pid, tier, seed, r['shard'], r['suite'], r['key'], budget) for r in todo]
            shrunk = pool.map(shrink_worker, sargs, chunksize=1)
            for (r, enc) in zip(todo, shrunk):
                if enc is not None and len(enc) <= r['size']:
                    r['case'] = enc
                    r['shrunk'] = True

    for line in known_lines:
        print(line)

    violations: t.List[t.Dict[str, t.Any]] = []
    for r in unknown:
        if 'regress_file' in r:
            path = r['regress_file']
        else:
            d = os.path.join(ROOT, 'replays', pid)
            os.makedirs(d, exist_ok=True)
            h = hashlib.sha1((r['key'] + (r['case'] or '')).encode()).hexdigest()[:12]
            path = os.path.join('replays', pid, f'{h}.json')
            with open(os.path.join(ROOT, path), 'w', encoding='utf-8') as f:
                json.dump({'property': pid, 'tier': tier, 'seed': seed, 'suite': r['suite'], 'key': r['key'],
                           'count': r['count'], 'shrunk': bool(r.get('shrunk')), 'detail': r['detail'],
                           'case': json.loads(r['case']) if r['case'] else None}, f, indent=1)
        print(f"  failure key={r['key']} count={r['count']} suite={r['suite']}\n    " + r['detail'].replace('\n', '\n    ')[:1200])
        print(f"VIOLATION property={pid} replay={path}")
        violations.append(r)

    exhaustive = all(s.exhaustive for s in suites) and not m['budget_hit']
    wall = time.monotonic() - t0
    ev = write_evidence(pid, tier, seed, prop, m, wall, known_lines, violations, exhaustive)
    nt = len(m['nt'])
    print(f"{pid} tier={tier} seed={seed}: cases={m['cases']} evaluations={m['evaluations']} nontrivial={nt} "
          f"known={len(known_lines)} violations={len(violations)} wall={wall:.1f}s evidence={os.path.relpath(ev, ROOT)}")
    if violations:
        return 1
    if nt < 2:
        print(f"HARNESS-ERROR property={pid}: vacuous run (fewer than 2 non-trivial cases)")
        return 2
    return 0
