"""
Ingest a seeded change produced by an independent sub-agent:

    python -m pv.ingest <worktree dir> <name>        e.g.  python -m pv.ingest /tmp/wt/C04 C04-a

Confirms, in a scratch copy of /repo outside /repo and /verif, that
  * the patch applies to the current /repo tree,
  * the repository's own test suite gives the baseline result with it (218 passed, 9 numpy failures),
  * the demonstration exits 0 without the change and non-zero with it,
and only then stores patch.diff, the demonstration and meta.json under /verif/seeded/<name>/.
"""

from __future__ import annotations

import json
import os
import shutil
import subprocess
import sys
import tempfile

ROOT = os.path.dirname(os.path.dirname(os.path.abspath(__file__)))


def run(cmd, cwd, env=None, timeout=600):
    return subprocess.run(cmd, cwd=cwd, env={**os.environ, **(env or {})}, capture_output=True, text=True, timeout=timeout)


def main() -> int:
    (wt, name) = sys.argv[1:3]
    patch = os.path.join(wt, 'patch.diff')
    demo = os.path.join(wt, 'demo.py')
    meta_p = os.path.join(wt, 'meta.json')
    for p in (patch, demo):
        if not os.path.exists(p):
            print(f"missing {p}")
            return 1
    meta = json.load(open(meta_p)) if os.path.exists(meta_p) else {}
    scratch = tempfile.mkdtemp(prefix='pv-seed-', dir='/tmp')
    try:
        for d in ('pane', 'tests'):
            shutil.copytree(os.path.join('/repo', d), os.path.join(scratch, d))
        shutil.copy(demo, os.path.join(scratch, 'demo.py'))
        env = {'PYTHONPATH': scratch}
        r0 = run(['/venv/bin/python', 'demo.py'], scratch, env)
        print(f"demo without the change: exit {r0.returncode}")
        ap = run(['patch', '-p1', '-s', '-i', patch], scratch)
        if ap.returncode != 0:
            print("patch does not apply:", ap.stdout[-400:], ap.stderr[-400:])
            return 1
        r1 = run(['/venv/bin/python', 'demo.py'], scratch, env)
        print(f"demo with the change:    exit {r1.returncode}")
        print((r1.stdout + r1.stderr)[-600:])
        tr = run(['/venv/bin/python', '-m', 'pytest', '-q', '-p', 'no:cacheprovider'], scratch, env)
        tail = tr.stdout.strip().splitlines()[-1] if tr.stdout.strip() else ''
        print("tests with the change:", tail)
        ok = r0.returncode == 0 and r1.returncode != 0 and tail.startswith('9 failed, 218 passed')
        if not ok:
            print("NOT CONFIRMED - not stored")
            return 1
        dest = os.path.join(ROOT, 'seeded', name)
        os.makedirs(dest, exist_ok=True)
        shutil.copy(patch, os.path.join(dest, 'patch.diff'))
        shutil.copy(demo, os.path.join(dest, 'demo.py'))
        meta.update({
            'confirmed': {
                'demo_exit_without_change': r0.returncode, 'demo_exit_with_change': r1.returncode,
                'existing_tests_with_change': tail,
                'how': 'python -m pv.ingest: scratch copy of /repo (pane/, tests/), PYTHONPATH=<scratch>; demo run before and after `patch -p1`; pytest -q',
            },
            'origin': 'independent sub-agent given only the property text and a scratch worktree',
        })
        json.dump(meta, open(os.path.join(dest, 'meta.json'), 'w'), indent=1)
        print(f"stored in seeded/{name}")
        return 0
    finally:
        shutil.rmtree(scratch, ignore_errors=True)


if __name__ == '__main__':
    sys.exit(main())
