"""
Fixed user-defined types the type grammar refers to by name (stable objects,
created once per process so the converter cache sees each exactly once).
"""

from __future__ import annotations

import datetime
import enum


class MyInt(int):
    pass


class MyFloat(float):
    pass


class MyStr(str):
    pass


class MyBytes(bytes):
    pass


class LoudStr(str):
    """A str subclass that prints differently from the text it holds (as members of (str, Enum) classes do since Python 3.11)."""
    def __str__(self) -> str:
        return '<' + str.__str__(self) + '>'


class NotAWorkday(Exception):
    pass


class Workday(datetime.date):
    """A date subclass whose constructor validates, with an exception of its own (not a ValueError)."""
    def __new__(cls, year, month=None, day=None):
        self = super().__new__(cls, year, month, day)
        if self.weekday() >= 5:
            raise NotAWorkday(f"{self.isoformat()} is not a workday")
        return self


SUBCLASSES = {'int': MyInt, 'float': MyFloat, 'str': MyStr, 'bytes': MyBytes}


class IntE(enum.Enum):
    A = 1
    B = 2
    C = 3


class StrE(enum.Enum):
    X = 'x'
    Y = 'y'


class FloatE(enum.Enum):
    H = 1.5
    K = 2.5


class MixedE(enum.Enum):
    ONE = 1
    BEE = 'b'
    NIL = None


class NoneE(enum.Enum):
    NIL = None


class BoolE(enum.Enum):
    T = True
    F = False


class IE(enum.IntEnum):
    P = 10
    Q = 20


class SE(str, enum.Enum):
    RED = 'red'
    BLUE = 'blue'


class BytesE(enum.Enum):
    B1 = b'\x00'
    B2 = b'ab'


class IE0(enum.IntEnum):
    ZERO = 0
    ONE = 1


class SE0(str, enum.Enum):
    EMPTY = ''
    A = 'a'


class FE0(float, enum.Enum):
    NIL = 0.0
    HALF = 0.5


class TupE(enum.Enum):
    PAIR = (1, 2)
    EMPTY = ()
    NAMED = ('a', 1)


ENUMS = {c.__name__: c for c in (IntE, StrE, FloatE, MixedE, NoneE, BoolE, IE, SE, BytesE, IE0, SE0, FE0, TupE)}
