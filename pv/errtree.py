"""Helpers over pane's error trees (C07, C08)."""

from __future__ import annotations

import typing as t

from . import tg, cg
from .same import same
from .oracles import outcome


def own_tree(nd: tg.Node, v: t.Any) -> t.Any:
    """Error tree that T's own conversion reports for v alone; None if accepted; raises if another exception escapes."""
    import pane
    (k, r) = outcome(lambda: pane.from_data(v, nd.pytype()))
    if k == 'ok':
        return None
    if k == 'ce':
        if contains_itself(r.tree):
            return r.tree       # (not a tree at all: printing it would never end; the callers report it)
        try:
            str(r)      # users look at the message first; looking must not change the tree that is inspected afterwards
        except Exception:
            pass
        return r.tree
    raise r


def _cause_str(node: t.Any) -> str:
    c = getattr(node, 'cause', None)
    if c is None:
        return ''
    try:
        return ''.join(c.format_exception_only())
    except Exception:
        return repr(c)


def tree_eq(a: t.Any, b: t.Any, path: str = '$') -> t.Optional[str]:
    """Structural equality of two error trees (actual values compared with same(), causes by their message)."""
    from pane.errors import ProductErrorNode, SumErrorNode, DuplicateKeyError
    if a is None or b is None:
        return None if a is b else f"{path}: one side has no error ({a!r:.80} vs {b!r:.80})"
    if type(a) is not type(b):
        return f"{path}: node type {type(a).__name__} != {type(b).__name__}"
    if isinstance(a, SumErrorNode):
        if len(a.children) != len(b.children):
            return f"{path}: sum arity {len(a.children)} != {len(b.children)}"
        for (i, (x, y)) in enumerate(zip(a.children, b.children)):
            d = tree_eq(x, y, f"{path}|{i}")
            if d:
                return d
        return None
    if isinstance(a, DuplicateKeyError):
        return None if (a.key == b.key and tuple(a.aliases) == tuple(b.aliases)) else f"{path}: duplicate-key nodes differ"
    if a.expected != b.expected:
        return f"{path}: expected {a.expected!r} != {b.expected!r}"
    d = same(a.actual, b.actual)
    if d is not None:
        return f"{path}: actual differs: {d}"
    if isinstance(a, ProductErrorNode):
        if set(a.children) != set(b.children):
            return f"{path}: child keys {sorted(map(repr, a.children))} != {sorted(map(repr, b.children))}"
        if set(a.missing) != set(b.missing) or set(a.extra) != set(b.extra):
            return f"{path}: missing/extra differ"
        for k in a.children:
            d = tree_eq(a.children[k], b.children[k], f"{path}.{k}")
            if d:
                return d
        return None
    if _cause_str(a) != _cause_str(b):
        return f"{path}: causes differ"
    for attr in ('info', 'condition', 'expected_len', 'actual_len'):
        if getattr(a, attr, None) != getattr(b, attr, None):
            return f"{path}: {attr} differs"
    return None


def union_members(nd: tg.Node) -> t.Optional[t.List[tg.Node]]:
    """Member nodes of an untagged union *as built* (typing flattens and de-duplicates); None if it collapsed to one type."""
    T = nd.pytype()
    if t.get_origin(T) is not t.Union:
        return None
    members = nd.members if isinstance(nd, tg.Union) else nd.inner.members  # type: ignore
    flat: t.List[tg.Node] = []

    def add(ms: t.Sequence[tg.Node]) -> None:
        for m in ms:
            if isinstance(m, tg.Union) and t.get_origin(m.pytype()) is t.Union:
                add(m.members)
            else:
                flat.append(m)
    add(members)
    out: t.List[tg.Node] = []
    for arg in t.get_args(T):
        hit = next((m for m in flat if m.pytype() is arg or m.pytype() == arg), None)
        if hit is None:
            return None
        out.append(hit)
    return out


def walk_leaves(tree: t.Any, path: t.Tuple[t.Any, ...] = (), in_sum: bool = False) -> t.Iterator[t.Tuple[t.Tuple[t.Any, ...], t.Any, bool]]:
    from pane.errors import ProductErrorNode, SumErrorNode
    if isinstance(tree, SumErrorNode):
        for c in tree.children:
            yield from walk_leaves(c, path, True)
    elif isinstance(tree, ProductErrorNode):
        yield (path, tree, in_sum)
        for (k, c) in tree.children.items():
            yield from walk_leaves(c, (*path, k), in_sum)
    else:
        yield (path, tree, in_sum)


def contains_itself(tree: t.Any) -> bool:
    """Is some node of the tree among its own descendants?  (A tree is finite; the library's own printing, and every walk below,
    would run away on one that is not.  Iterative, each node visited once.)"""
    from pane.errors import SumErrorNode, ProductErrorNode
    done: t.Set[int] = set()
    onpath: t.Set[int] = set()
    stack: t.List[t.Tuple[t.Any, bool]] = [(tree, False)]
    while stack:
        (n, leaving) = stack.pop()
        if leaving:
            onpath.discard(id(n))
            done.add(id(n))
            continue
        if id(n) in onpath:
            return True
        if id(n) in done:
            continue
        onpath.add(id(n))
        stack.append((n, True))
        kids: t.List[t.Any] = []
        if isinstance(n, SumErrorNode):
            kids = list(n.children)
        elif isinstance(n, ProductErrorNode):
            kids = list(n.children.values())
        for c in kids:
            if id(c) in onpath:
                return True
            stack.append((c, False))
    return False


def tree_stats(tree: t.Any) -> t.Dict[str, int]:
    from pane.errors import ProductErrorNode, SumErrorNode, DuplicateKeyError
    st = {'depth': 0, 'sum': 0, 'product': 0, 'leaf': 0, 'cause': 0, 'dup': 0, 'missing': 0, 'extra': 0, 'sum_in_product_in_sum': 0}

    def rec(n: t.Any, d: int, ctxs: t.Tuple[str, ...]) -> None:
        st['depth'] = max(st['depth'], d)
        if isinstance(n, SumErrorNode):
            st['sum'] += 1
            if 'P' in ctxs and 'S' in ctxs[:max(0, len(ctxs) - 1)]:
                st['sum_in_product_in_sum'] += 1
            for c in n.children:
                rec(c, d + 1, (*ctxs, 'S'))
        elif isinstance(n, ProductErrorNode):
            st['product'] += 1
            st['missing'] += len(n.missing)
            st['extra'] += len(n.extra)
            for c in n.children.values():
                rec(c, d + 1, (*ctxs, 'P'))
        else:
            st['leaf'] += 1
            if isinstance(n, DuplicateKeyError):
                st['dup'] += 1
            if getattr(n, 'cause', None) is not None:
                st['cause'] += 1
    rec(tree, 1, ())
    return st


def leaf_actuals(tr: t.Any) -> t.List[t.Any]:
    """The offending sub-values recorded by the leaves of an error tree."""
    from pane.errors import ProductErrorNode, SumErrorNode
    if isinstance(tr, ProductErrorNode):
        return [a for c in tr.children.values() for a in leaf_actuals(c)] if tr.children else [tr.actual]
    if isinstance(tr, SumErrorNode):
        return [a for c in tr.children for a in leaf_actuals(c)]
    return [tr.actual] if hasattr(tr, 'actual') else []
