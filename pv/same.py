"""
``same(actual, expected)``: equal *and* of exactly the same concrete type at
every level.  ``expected`` may be a reference image (containing ``Inst`` /
``VolImage`` model objects) or a real value.  Returns None when the two are the
same, otherwise a short path-qualified description of the first difference.
"""

from __future__ import annotations

import collections
import datetime
import decimal
import enum
import fractions
import math
import pathlib
import re
import struct
import types
import typing as t

from .codec import MySeq, MyMap


def _fbits(x: float) -> bytes:
    return struct.pack('>d', x)


SKIP_EXCLUDED = [False]   # C05/C19: compare dataclass instances modulo fields the user excluded


def _ckey(x: t.Any) -> t.Any:
    """Canonical, order-free key of a hashable value (set elements, mapping keys)."""
    if isinstance(x, (set, frozenset)):
        return (type(x).__name__, sorted((_ckey(e) for e in x), key=repr))
    if isinstance(x, tuple):
        return (type(x).__name__, [_ckey(e) for e in x])
    return (type(x).__name__, repr(x))


def same(a: t.Any, b: t.Any, path: str = '$') -> t.Optional[str]:
    from .cg import Inst
    from .tg import VolImage

    if isinstance(a, Inst) and isinstance(b, Inst):
        # two reference images
        if a.cls.key != b.cls.key or a.set_fields != b.set_fields or a.values.keys() != b.values.keys():
            return f"{path}: different dataclass images"
        for k in b.values:
            d = same(a.values[k], b.values[k], f"{path}.{k}")
            if d is not None:
                return d
        return None
    if isinstance(a, VolImage) and isinstance(b, VolImage):
        if a.is_val != b.is_val:
            return f"{path}: ValueOrList is_val differs"
        return same(a.inner, b.inner, path + '._inner')

    if isinstance(b, Inst):
        cls = b.cls.pytype()
        if type(a) is not cls:
            return f"{path}: expected an instance of {cls.__name__}, got {type(a).__name__} {a!r:.80}"
        for (name, img) in b.values.items():
            try:
                got = getattr(a, name)
            except AttributeError:
                return f"{path}.{name}: attribute missing"
            d = same(got, img, f"{path}.{name}")
            if d is not None:
                return d
        sf = getattr(a, '__pane_set__', None)
        if sf != b.set_fields:
            return f"{path}: set-field record {sf!r}, expected {b.set_fields!r}"
        return None

    if isinstance(b, VolImage):
        from pane.types import ValueOrList
        if type(a) is not ValueOrList:
            return f"{path}: expected a ValueOrList, got {type(a).__name__}"
        if bool(a._is_val) != b.is_val:
            return f"{path}: ValueOrList is_val={a._is_val}, expected {b.is_val}"
        return same(a._inner, b.inner, path + '._inner')

    ta, tb = type(a), type(b)
    if ta is not tb:
        return f"{path}: type {ta.__name__} != expected {tb.__name__} ({a!r:.60} vs {b!r:.60})"

    if tb.__name__ == 'ValueOrList' and hasattr(b, '_is_val'):
        if bool(a._is_val) != bool(b._is_val):
            return f"{path}: ValueOrList is_val differs"
        return same(a._inner, b._inner, path + '._inner')

    if hasattr(b, '__pane_info__'):
        # two real dataclass instances
        for f in b.__pane_info__.fields:
            if SKIP_EXCLUDED[0] and f.exclude:
                continue
            try:
                d = same(getattr(a, f.name), getattr(b, f.name), f"{path}.{f.name}")
            except AttributeError:
                d = None if not hasattr(a, f.name) and not hasattr(b, f.name) else f"{path}.{f.name}: attribute missing on one side"
            if d is not None:
                return d
        return None

    if isinstance(b, float):
        if _fbits(a) != _fbits(b) and not (math.isnan(a) and math.isnan(b)):
            return f"{path}: {a!r} != {b!r}"
        return None
    if isinstance(b, complex):
        return same(a.real, b.real, path + '.real') or same(a.imag, b.imag, path + '.imag')
    if tb is decimal.Decimal:
        if a.as_tuple() != b.as_tuple():
            return f"{path}: {a!r} != {b!r}"
        return None
    if tb in (list, tuple, collections.deque, MySeq) or isinstance(b, (list, tuple)):   # (subclasses too: spy containers kept at Any positions)
        if len(a) != len(b):
            return f"{path}: length {len(a)} != {len(b)}"
        for (i, (x, y)) in enumerate(zip(a, b)):
            d = same(x, y, f"{path}[{i}]")
            if d is not None:
                return d
        return None
    if tb in (set, frozenset):
        if len(a) != len(b):
            return f"{path}: set size {len(a)} != {len(b)}"
        if any(isinstance(y, (Inst, VolImage)) or hasattr(y, '__pane_info__') for y in b):
            # elements that are (images of) dataclass instances: match them up with same()
            rest = list(a)
            for y in b:
                hit = next((i for (i, x) in enumerate(rest) if same(x, y) is None), None)
                if hit is None:
                    return f"{path}: no element matches {y!r:.80}"
                rest.pop(hit)
            return None
        ka = sorted((_ckey(x) for x in a), key=repr)
        kb = sorted((_ckey(x) for x in b), key=repr)
        if ka != kb:
            return f"{path}: set elements {ka!r:.100} != {kb!r:.100}"
        return None
    if isinstance(b, collections.abc.Mapping):
        if len(a) != len(b):
            return f"{path}: mapping size {len(a)} != {len(b)}"
        if tb is collections.defaultdict and a.default_factory is not b.default_factory:
            return f"{path}: default_factory differs"
        bk = {repr(_ckey(k)): k for k in b}
        for k in a:
            kk = repr(_ckey(k))
            if kk not in bk:
                return f"{path}: unexpected key {k!r} ({type(k).__name__})"
            d = same(a[k], b[bk[kk]], f"{path}[{k!r}]")
            if d is not None:
                return d
        return None
    if isinstance(b, re.Pattern):
        if a.pattern != b.pattern or a.flags != b.flags:
            return f"{path}: pattern {a!r} != {b!r}"
        return same(a.pattern, b.pattern, path + '.pattern')
    if isinstance(b, enum.Enum):
        return None if a is b else f"{path}: enum member {a!r} is not {b!r}"
    if tb.__module__ == 'numpy' and tb.__name__ == 'ndarray':
        same_dtype = a.dtype == b.dtype or (a.dtype.kind == b.dtype.kind and a.dtype.kind in 'US')   # string width is incidental
        if not same_dtype or a.shape != b.shape:
            return f"{path}: array dtype/shape {a.dtype}{a.shape} != {b.dtype}{b.shape}"
        return same(a.tolist(), b.tolist(), path + '.tolist()')
    if isinstance(b, (datetime.datetime, datetime.time)):
        if a != b or a.tzinfo != b.tzinfo or getattr(a, 'fold', 0) != getattr(b, 'fold', 0):
            return f"{path}: {a!r} != {b!r}"
        return None
    try:
        eq = bool(a == b)
    except Exception as e:
        return f"{path}: comparison raised {type(e).__name__}"
    if not eq:
        return f"{path}: {a!r:.80} != {b!r:.80}"
    return None
