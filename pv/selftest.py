"""
Sensitivity self-test:  python -m pv.selftest [--only PATTERN] [--props C01,C05] [--no-tests]

For every patch in /verif/mutants/*.diff and /verif/seeded/*/patch.diff: copy
/repo to a scratch directory outside /repo and /verif, apply the patch, make
sure the repository's own test suite still passes there (otherwise the mutant
proves nothing), run the quick checks named in mutants/TABLE.json (or given
with --props) against the copy (PV_REPO), expect exit 1 with a VIOLATION line,
delete the scratch directory, and tabulate into evidence/selftest.json.
"""

from __future__ import annotations

import argparse
import fnmatch
import json
import os
import shutil
import subprocess
import sys
import tempfile
import time

ROOT = os.path.dirname(os.path.dirname(os.path.abspath(__file__)))
REPO = '/repo'


def patches():
    out = []
    md = os.path.join(ROOT, 'mutants')
    for fn in sorted(os.listdir(md)):
        if fn.endswith('.diff'):
            out.append((fn[:-5], os.path.join(md, fn)))
    sd = os.path.join(ROOT, 'seeded')
    if os.path.isdir(sd):
        for d in sorted(os.listdir(sd)):
            p = os.path.join(sd, d, 'patch.diff')
            if os.path.exists(p):
                out.append((f"seeded-{d}", p))
    return out


def table():
    p = os.path.join(ROOT, 'mutants', 'TABLE.json')
    return json.load(open(p)) if os.path.exists(p) else {}


def run_tests(scratch: str) -> bool:
    r = subprocess.run(['/venv/bin/python', '-m', 'pytest', '-q', '-p', 'no:cacheprovider', '-x', '--deselect', 'tests/test_numpy.py'],
                       cwd=scratch, env={**os.environ, 'PYTHONPATH': scratch}, capture_output=True, text=True)
    tail = r.stdout.strip().splitlines()[-1] if r.stdout.strip() else ''
    return ' failed' not in tail and 'error' not in tail.lower() and 'passed' in tail


def main() -> int:
    ap = argparse.ArgumentParser()
    ap.add_argument('--only', default='*')
    ap.add_argument('--props', default=None)
    ap.add_argument('--no-tests', action='store_true')
    ap.add_argument('--tier', default='quick')
    a = ap.parse_args()
    tab = table()
    results = []
    for (name, path) in patches():
        if not fnmatch.fnmatch(name, a.only):
            continue
        props = a.props.split(',') if a.props else tab.get(name, {}).get('props', [])
        if not props:
            print(f"{name}: no properties listed, skipped")
            continue
        scratch = tempfile.mkdtemp(prefix='pv-mut-', dir='/tmp')
        try:
            shutil.copytree(os.path.join(REPO, 'pane'), os.path.join(scratch, 'pane'))
            shutil.copytree(os.path.join(REPO, 'tests'), os.path.join(scratch, 'tests'))
            ap_ = subprocess.run(['patch', '-p1', '-s', '-i', path], cwd=scratch, capture_output=True, text=True)
            if ap_.returncode != 0:
                print(f"{name}: patch does not apply: {ap_.stdout[-300:]}{ap_.stderr[-300:]}")
                results.append({'mutant': name, 'status': 'patch-failed'})
                continue
            tests_ok = True if a.no_tests else run_tests(scratch)
            for pid in props:
                t0 = time.monotonic()
                r = subprocess.run([os.path.join(ROOT, 'check'), pid, a.tier], cwd=ROOT, capture_output=True, text=True,
                                   env={**os.environ, 'PV_REPO': scratch, 'PV_SELFTEST': '1'})
                dt = time.monotonic() - t0
                viol = [ln for ln in r.stdout.splitlines() if ln.startswith('VIOLATION')]
                keys = [ln.strip() for ln in r.stdout.splitlines() if ln.strip().startswith('failure key=')]
                killed = r.returncode == 1 and bool(viol)
                print(f"{name} x {pid}: {'KILLED' if killed else 'SURVIVED rc=%d' % r.returncode} in {dt:.0f}s tests_pass={tests_ok} {keys[:2]}")
                results.append({'mutant': name, 'property': pid, 'killed': killed, 'rc': r.returncode, 'seconds': round(dt, 1),
                                'existing_tests_pass': tests_ok, 'keys': keys[:4]})
        finally:
            shutil.rmtree(scratch, ignore_errors=True)
    # the checks rewrote evidence files while pointing at scratch copies: do not leave those behind as evidence
    out = os.path.join(ROOT, 'evidence', 'selftest.json')
    prev = []
    if os.path.exists(out) and a.only != '*':
        try:
            prev = [r for r in json.load(open(out))['results'] if not any(r.get('mutant') == x.get('mutant') and r.get('property') == x.get('property') for x in results)]
        except Exception:
            prev = []
    with open(out, 'w') as f:
        json.dump({'results': prev + results}, f, indent=1)
    bad = [r for r in results if r.get('killed') is False]
    print(f"{len(results)} runs, {len(bad)} survived")
    return 1 if bad else 0


if __name__ == '__main__':
    sys.exit(main())
