"""CLI: python -m pv.run <ID> [--tier quick|thorough] [--seed N] [--replay path] [--suite name]"""
import argparse
import os
import sys


def cli() -> int:
    ap = argparse.ArgumentParser()
    ap.add_argument('pid')
    ap.add_argument('--tier', default=os.environ.get('VERIF_TIER') or 'quick', choices=['quick', 'thorough'])
    ap.add_argument('--seed', type=int, default=None)
    ap.add_argument('--replay', default=None)
    ap.add_argument('--suite', default=None)
    a = ap.parse_args()
    seed = a.seed
    if seed is None:
        try:
            seed = int(os.environ.get('VERIF_SEED', '1'))
        except ValueError:
            seed = 1
    from pv import core
    if a.replay:
        return core.replay(a.pid.upper(), a.replay)
    return core.main(a.pid.upper(), a.tier, seed, a.suite)


if __name__ == '__main__':
    try:
        rc = cli()
    except SystemExit:
        raise
    except BaseException:
        import traceback
        traceback.print_exc()
        print("HARNESS-ERROR: runner crashed")
        rc = 2
    sys.exit(rc)
