"""
Coverage-guided campaign (atheris / libFuzzer) over a model-free oracle.

    python -m pv.fuzz <C03|C04> --out FILE --runs N --seed S [--max-len L]

The fuzz target is the property's own Hypothesis test driven through
``test.hypothesis.fuzz_one_input`` (the bytes are Hypothesis's choice sequence,
so the structured generator - type grammar, construct-then-mutate values - is
what libFuzzer mutates), with pane instrumented for coverage.  Failures are
collected, not raised (libFuzzer would stop at the first): each new root-cause
key is appended to FILE as one JSON line {key, detail, case}; the last line is
a {"stats": ...} record.  The saved case replays through the property's normal
suite, without atheris or Hypothesis.
"""

from __future__ import annotations

import argparse
import json
import os
import sys
import time
import warnings


def main() -> int:
    ap = argparse.ArgumentParser()
    ap.add_argument('pid')
    ap.add_argument('--out', required=True)
    ap.add_argument('--runs', type=int, default=20000)
    ap.add_argument('--seed', type=int, default=1)
    ap.add_argument('--max-len', type=int, default=4096)
    ap.add_argument('--leaves', type=int, default=6)
    ap.add_argument('--budget', type=float, default=280.0)
    a = ap.parse_args()
    warnings.simplefilter('ignore')
    sys.path.insert(0, os.path.join(os.path.dirname(os.path.dirname(os.path.abspath(__file__))), '.deps'))
    try:
        import atheris
    except Exception as e:      # pragma: no cover
        json.dump({'stats': {'error': f'atheris not importable: {e}'}}, open(a.out, 'w'))
        return 3
    with atheris.instrument_imports(include=['pane']):
        import pane  # noqa: F401
        import pane.converters  # noqa: F401
        import pane.classes  # noqa: F401
        import pane.types  # noqa: F401
    from hypothesis import given, settings, HealthCheck
    from . import core, gen, codec
    prop = core.load_prop(a.pid)
    suite_name = {'C03': 'twopass', 'C04': 'escape'}[a.pid.upper()]
    suite = next(s for s in prop.suites('thorough') if s.name == suite_name)
    seen = {}
    stats = {'execs': 0, 'valid_cases': 0, 'nontrivial': 0, 'keys': 0, 'started': time.time()}
    out = open(a.out, 'w')
    t0 = time.monotonic()

    @settings(database=None, deadline=None, suppress_health_check=list(HealthCheck))
    @given(gen.conv_cases(gen.all_type_specs(a.leaves)))
    def target(case):
        stats['valid_cases'] += 1
        ctx = core.run_check(suite, case)
        if ctx.nt:
            stats['nontrivial'] += 1
        for f in ctx.fails:
            if f.key not in seen:
                seen[f.key] = True
                stats['keys'] += 1
                out.write(json.dumps({'key': f.key, 'detail': f.detail, 'case': codec.enc(case)}) + '\n')
                out.flush()

    fuzz_one = target.hypothesis.fuzz_one_input

    def test_one_input(data: bytes) -> None:
        stats['execs'] += 1
        try:
            fuzz_one(data)
        except core.HarnessError:
            raise
        if stats['execs'] % 500 == 0 or time.monotonic() - t0 > a.budget:
            out.write(json.dumps({'stats': dict(stats, wall=round(time.monotonic() - t0, 1))}) + '\n')
            out.flush()
        if time.monotonic() - t0 > a.budget:
            os._exit(0)

    corpus = a.out + '.corpus'
    os.makedirs(corpus, exist_ok=True)
    argv = [sys.argv[0], f'-runs={a.runs}', f'-seed={a.seed if a.seed else 1}', f'-max_len={a.max_len}', '-print_final_stats=0', '-verbosity=0', corpus]
    atheris.Setup(argv, test_one_input)
    try:
        atheris.Fuzz()
    finally:
        out.write(json.dumps({'stats': dict(stats, wall=round(time.monotonic() - t0, 1))}) + '\n')
        out.flush()
    return 0


if __name__ == '__main__':
    sys.exit(main())
