"""numpy array node of the type grammar (restricted spellings: bare ndarray and ndarray[Any, dtype[X]])."""

from __future__ import annotations

import typing as t

import numpy
from hypothesis import strategies as st

from .tg import Node, Scalar, Acc, Rej, Unspec, Verdict, is_seq, combine

DTYPES: t.Dict[str, t.Tuple[t.Any, str]] = {
    'int64': (numpy.int64, 'int'), 'int32': (numpy.int32, 'int'), 'uint8': (numpy.uint8, 'int'),
    'float64': (numpy.float64, 'float'), 'float32': (numpy.float32, 'float'),
    'complex128': (numpy.complex128, 'complex'), 'bool_': (numpy.bool_, 'bool'),
    'str_': (numpy.str_, 'str'), 'bytes_': (numpy.bytes_, 'bytes'), 'generic': (numpy.generic, 'any'),
    # abstract scalar types: any element type of the family (numpy chooses); they are not dtypes themselves
    'floating': (numpy.floating, 'float'), 'integer': (numpy.integer, 'int'),
}
ABSTRACT = {'generic', 'floating', 'integer'}


class NdNode(Node):
    kind = 'ndarray'
    hashable = False

    def __init__(self, spec):
        super().__init__(spec)
        self.dt: t.Optional[str] = spec[1]
        self.leaf: Node = Scalar(('s', 'any' if self.dt is None else DTYPES[self.dt][1]))

    def children(self):
        return (self.leaf,)

    def render(self):
        return 'numpy.ndarray' if self.dt is None else f"numpy.ndarray[Any, numpy.dtype[numpy.{self.dt}]]"

    def build(self):
        if self.dt is None:
            return numpy.ndarray
        return numpy.ndarray[t.Any, numpy.dtype[DTYPES[self.dt][0]]]  # type: ignore

    def valid(self, hd=False):
        assert not hd
        from . import tg
        # untyped arrays: one leaf kind per array (numpy coerces mixed leaves, reads bytearray as a buffer, ...)
        kinds = [tg.small_ints, tg.finite_floats, tg.texts, st.booleans(), st.sampled_from([0j, 1.5 + 2j]),
                 st.sampled_from([{'a': 1}, {}, {'k': [1]}, None]),
                 # leaves numpy cannot put into one array (its constructor raises): the verdict is the reference's business
                 st.sampled_from(['', 'a', bytearray(b'x'), False, b'y', 1.5])]

        @st.composite
        def mk(draw):
            leaf = draw(st.sampled_from(kinds)) if self.leaf.kind == 'any' else self.leaf.valid()
            nd = draw(st.integers(0, 2))
            shape = [draw(st.integers(0, 3)) for _ in range(nd)]

            def build(dims):
                if not dims:
                    return draw(leaf)
                return [build(dims[1:]) for _ in range(dims[0])]
            return build(shape)
        return mk()

    def subpairs(self, v):
        out: t.List[t.Tuple[Node, t.Any]] = []

        def walk(x, d):
            if is_seq(x) and d < 6:
                for y in x:
                    walk(y, d + 1)
            else:
                out.append((self.leaf, x))
        walk(v, 0)
        return out[:20]

    def ref(self, v):
        parts: t.List[Verdict] = []

        def conv(x, d=0):
            if is_seq(x):
                if d > 30:
                    raise RecursionError
                return [conv(y, d + 1) for y in x]
            p = self.leaf.ref(x)
            if self.leaf.kind == 'int' and type(x) is int and not (-2**63 <= x < 2**63):
                p = Unspec('int leaf outside the int64 range (numpy promotes the array to float/object)')
            if self.leaf.kind == 'any' and isinstance(x, (bytes, bytearray)):
                p = Unspec('bytes-like leaf of an untyped array (numpy reads it as a buffer)')
            parts.append(p)
            return p.image if isinstance(p, Acc) else None

        res = conv(v)
        bad = combine(parts)
        if bad is not None:
            return bad

        def shape(x):
            if not is_seq(x):
                return ()
            shapes = [shape(y) for y in x]
            if not shapes:
                return (0,)
            if any(s != shapes[0] for s in shapes):
                raise ValueError('ragged')
            return (len(shapes), *shapes[0])
        try:
            shape(res)
        except ValueError:
            return Rej('ragged nested sequence')
        try:
            if self.dt is not None and self.dt not in ABSTRACT:
                # the declared element type (an int outside a narrower integer dtype makes numpy raise: a rejection)
                return Acc(numpy.array(res, dtype=DTYPES[self.dt][0]))
            arr = numpy.array(res)
            if self.dt in ('floating', 'integer') and arr.size and not numpy.issubdtype(arr.dtype, DTYPES[self.dt][0]):
                # numpy chose an element type outside the declared family (ints for a floating array; floats for ints beyond
                # 64 bits): the family's default type, or a rejection where the values do not fit it
                arr = numpy.array(res, dtype={'floating': numpy.float64, 'integer': numpy.int64}[self.dt])
            return Acc(arr)
        except Exception as e:
            return Rej(f'numpy.array raised {type(e).__name__}')


def nd_specs() -> st.SearchStrategy[t.Any]:
    return st.one_of(st.just(('nd', None)), st.sampled_from(sorted(DTYPES)).map(lambda d: ('nd', d)))
