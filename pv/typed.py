"""
Validity predicate over *results*: is x an exactly-typed inhabitant of T's image?

Independent of the verdict oracle: it does not say whether a value should have
been accepted, only that whatever from_data returned for T has the documented
shape at every depth (int is exactly int, not bool or an IntEnum member; List
gives list, Sequence / Tuple give tuple, Set gives set; a dataclass field holds
an image of its field type, ...).  It therefore also applies in the cells the
reference leaves unspecified (bool or a subclass instance given to a numeric
target, loose literal / enum matches).
"""

from __future__ import annotations

import collections
import datetime
import decimal
import fractions
import pathlib
import re
import typing as t

from . import tg, cg

EXACT = {
    'int': int, 'float': float, 'complex': complex, 'str': str, 'bytes': bytes, 'bytearray': bytearray, 'bool': bool, 'none': type(None),
    'Decimal': decimal.Decimal, 'Fraction': fractions.Fraction, 'date': datetime.date, 'time': datetime.time, 'datetime': datetime.datetime,
}


def shape_error(nd: tg.Node, x: t.Any, path: str = '$', depth: int = 0) -> t.Optional[str]:
    """None if x is shaped like an image of nd, else a description of the first position that is not."""
    if depth > 12:
        return None
    if isinstance(nd, tg.Scalar):
        n = nd.name
        if n == 'any':
            return None
        if n in EXACT:
            return None if type(x) is EXACT[n] else f"{path}: {type(x).__name__} where exactly {EXACT[n].__name__} is the image of {n}"
        if n == 'Workday':
            from .usertypes import Workday
            return None if isinstance(x, Workday) else f"{path}: {type(x).__name__} is not a Workday"
        if n in tg.PATH_TYPES:
            want = pathlib.PurePath if n == 'PathLike' else tg.PATH_TYPES[n]
            return None if isinstance(x, want) else f"{path}: {type(x).__name__} is not a {want.__name__}"
        return None if isinstance(x, re.Pattern) else f"{path}: {type(x).__name__} is not a compiled pattern"
    if isinstance(nd, tg.Sub):
        return None if type(x) is nd.cls else f"{path}: {type(x).__name__} where exactly {nd.cls.__name__} is expected"
    if isinstance(nd, tg.Enum):
        return None if type(x) is nd.cls else f"{path}: {type(x).__name__} where a member of {nd.cls.__name__} is expected"
    if isinstance(nd, tg.Lit):
        for lit in nd.vals:
            try:
                if x == lit:
                    return None
            except Exception:
                pass
        return f"{path}: {x!r:.60} equals none of the literals"
    if isinstance(nd, tg.Seq):
        want = nd.ctor
        if type(x) is not want:
            return f"{path}: {type(x).__name__} where exactly {want.__name__} is the image of {nd.render()[:60]}"
        for (i, y) in enumerate(x):
            d = shape_error(nd.elem, y, f"{path}[{i}]", depth + 1)
            if d:
                return d
        return None
    if isinstance(nd, tg.Tup):
        if type(x) is not tuple or len(x) != len(nd.elems):
            return f"{path}: {type(x).__name__} where a tuple of {len(nd.elems)} is expected"
        for (i, (e, y)) in enumerate(zip(nd.elems, x)):
            d = shape_error(e, y, f"{path}[{i}]", depth + 1)
            if d:
                return d
        return None
    if isinstance(nd, tg.Map):
        want = type(nd.ctor({}))
        if type(x) is not want:
            return f"{path}: {type(x).__name__} where exactly {want.__name__} is the image of {nd.render()[:60]}"
        for (k, y) in x.items():
            d = shape_error(nd.k, k, f"{path}<key {k!r:.30}>", depth + 1) or shape_error(nd.v, y, f"{path}[{k!r:.30}]", depth + 1)
            if d:
                return d
        return None
    if isinstance(nd, tg.Struct):
        if type(x) is not dict:
            return f"{path}: {type(x).__name__} where a dict is the image of a struct literal"
        fd = dict(nd.fields)
        for (k, y) in x.items():
            if k not in fd:
                return f"{path}: key {k!r:.30} is not a field of the struct literal"
            d = shape_error(fd[k], y, f"{path}.{k}", depth + 1)
            if d:
                return d
        return None
    if isinstance(nd, tg.Union):
        errs = [shape_error(m, x, path, depth + 1) for m in nd.members]
        return None if any(e is None for e in errs) else f"{path}: image of no member of {nd.render()[:80]} ({errs[0]})"
    if isinstance(nd, tg.Ann):
        return shape_error(nd.inner, x, path, depth + 1)
    if isinstance(nd, tg.TypeVarN):
        return shape_error(nd.inner, x, path, depth + 1)
    if isinstance(nd, tg.Vol):
        from pane.types import ValueOrList
        return None if isinstance(x, ValueOrList) else f"{path}: {type(x).__name__} is not a ValueOrList"
    if isinstance(nd, cg.ClsNode):
        if not isinstance(x, nd.pytype()):
            return f"{path}: {type(x).__name__} is not an instance of {nd.name}"
        for f in nd.fields:
            if not f.init or not hasattr(x, f.name):
                continue
            d = shape_error(f.node, getattr(x, f.name), f"{path}.{f.name}", depth + 1)
            if d:
                return d
        return None
    if isinstance(nd, cg.TaggedNode):
        errs = [shape_error(vn, x, path, depth + 1) for vn in nd.variants]
        return None if any(e is None for e in errs) else f"{path}: instance of no variant ({errs[0]})"
    if nd.kind == 'ndarray':
        import numpy
        from .npn import DTYPES
        if not isinstance(x, numpy.ndarray):
            return f"{path}: {type(x).__name__} is not a numpy array"
        dt = getattr(nd, 'dt', None)
        if dt in ('floating', 'integer'):
            # (an array without elements has whatever element type numpy defaults to: an abstract family names no dtype to give it)
            return None if (x.size == 0 or numpy.issubdtype(x.dtype, DTYPES[dt][0])) else f"{path}: array of dtype {x.dtype} where a numpy.{dt} element type is declared"
        if dt is not None and dt != 'generic':
            want = numpy.dtype(DTYPES[dt][0])
            # (for text dtypes the width is incidental: compare the kind)
            if (x.dtype.kind != want.kind) if want.kind in 'US' else (x.dtype != want):
                return f"{path}: array of dtype {x.dtype} where numpy.dtype[numpy.{dt}] is declared"
        return None
    return None


_BASEVAL = {'str': (str, str.__str__), 'int': (int, int.__int__), 'float': (float, float.__float__), 'bytes': (bytes, lambda v: bytes(memoryview(v)))}


def base_value_error(nd: tg.Node, v: t.Any, x: t.Any, path: str = '$', depth: int = 0) -> t.Optional[str]:
    """
    An instance of a *subclass* of an interchange type (a user subclass, a mixin enum member) given where the plain type is
    declared: whether it is accepted is unspecified, but if it is, the image is the plain value it carries - the text of a
    str subclass, not whatever its __str__ prints.  Walks lists / tuples / mapping values in parallel with the result.
    """
    if depth > 6:
        return None
    if isinstance(nd, tg.Scalar) and nd.name in _BASEVAL:
        (base, get) = _BASEVAL[nd.name]
        if isinstance(v, base) and type(v) is not base and type(v) is not bool and type(x) is base:
            want = get(v)
            if x != want and not (x != x and want != want):      # (NaN carries NaN)
                return f"{path}: {type(v).__name__} instance {v!r} carrying {want!r} was converted to {x!r}"
        return None
    if isinstance(nd, (tg.Ann, tg.TypeVarN)) and not isinstance(getattr(nd, 'inner', None), tg.Union):
        return base_value_error(nd.inner, v, x, path, depth + 1)
    if isinstance(nd, tg.Seq) and not nd.setlike and tg.is_seq(v) and isinstance(x, (list, tuple, collections.deque)) and len(v) == len(x):
        for (i, (a, b)) in enumerate(zip(v, x)):
            d = base_value_error(nd.elem, a, b, f"{path}[{i}]", depth + 1)
            if d:
                return d
        return None
    if isinstance(nd, tg.Tup) and tg.is_seq(v) and isinstance(x, tuple) and len(v) == len(x) == len(nd.elems):
        for (i, (e, a, b)) in enumerate(zip(nd.elems, v, x)):
            d = base_value_error(e, a, b, f"{path}[{i}]", depth + 1)
            if d:
                return d
        return None
    return None
