"""
JSON codec for cases.

A *case* is whatever a property's strategy draws: type specs (nested tuples of
strings), class specs (dicts), and interchange *values* (which include bytes,
complex, nan, tuples, odd containers).  Replay files and evidence samples
store cases through this codec so that a replay rebuilds exactly the objects
the failing run saw, without Hypothesis.
"""

from __future__ import annotations

import collections
import enum
import json
import math
import types
import typing as t


class MySeq(collections.abc.Sequence):
    """Minimal interchange sequence: only the Sequence protocol, nothing else."""
    __slots__ = ('_items',)

    def __init__(self, items=()):
        self._items = tuple(items)

    def __getitem__(self, i):
        if isinstance(i, slice):
            return MySeq(self._items[i])
        return self._items[i]

    def __len__(self):
        return len(self._items)

    def __repr__(self):
        return f"MySeq({list(self._items)!r})"

    def __eq__(self, other):
        return isinstance(other, MySeq) and self._items == other._items

    __hash__ = None  # type: ignore


class MyMap(collections.abc.Mapping):
    """Minimal interchange mapping: only the Mapping protocol (no .copy(), no .pop())."""
    __slots__ = ('_d',)

    def __init__(self, items=()):
        self._d = dict(items)

    def __getitem__(self, k):
        return self._d[k]

    def __iter__(self):
        return iter(self._d)

    def __len__(self):
        return len(self._d)

    def __repr__(self):
        return f"MyMap({self._d!r})"

    def __eq__(self, other):
        return isinstance(other, MyMap) and self._d == other._d

    __hash__ = None  # type: ignore


def enc(o: t.Any) -> t.Any:
    """Python case data -> JSON-able."""
    from . import usertypes
    if isinstance(o, enum.Enum) and type(o).__name__ in usertypes.ENUMS:
        return {'$e': [type(o).__name__, o.name]}
    if type(o).__module__ == 'numpy' and type(o).__name__ == 'ndarray':
        return {'$nd': [str(o.dtype), enc(o.tolist())]}
    if type(o) is usertypes.LoudStr:
        return {'$u': ['loud', str.__str__(o)]}
    if type(o) in usertypes.SUBCLASSES.values():
        base = next(b for (b, c) in usertypes.SUBCLASSES.items() if c is type(o))
        return {'$u': [base, enc({'int': int, 'float': float, 'str': str, 'bytes': bytes}[base](o))]}
    if o is None or isinstance(o, (bool, str)):
        return o
    if isinstance(o, int):
        return o
    if isinstance(o, float):
        if math.isfinite(o) and o == o and not (o == 0.0 and math.copysign(1, o) < 0):
            return {'$f': repr(o)}
        return {'$f': repr(o)}
    if isinstance(o, complex):
        return {'$c': [repr(o.real), repr(o.imag)]}
    if isinstance(o, bytearray):
        return {'$ba': bytes(o).hex()}
    if isinstance(o, bytes):
        return {'$b': o.hex()}
    if isinstance(o, tuple):
        return {'$t': [enc(x) for x in o]}
    if isinstance(o, list):
        return [enc(x) for x in o]
    if isinstance(o, range):
        return {'$r': [o.start, o.stop, o.step]}
    if isinstance(o, MySeq):
        return {'$seq': [enc(x) for x in o]}
    if isinstance(o, MyMap):
        return {'$map': [[enc(k), enc(v)] for (k, v) in o.items()]}
    if isinstance(o, types.MappingProxyType):
        return {'$mp': [[enc(k), enc(v)] for (k, v) in o.items()]}
    if isinstance(o, collections.defaultdict):
        fac = {None: None, list: 'list', int: 'int', dict: 'dict', str: 'str'}.get(o.default_factory, 'list')
        return {'$dd': [fac, [[enc(k), enc(v)] for (k, v) in o.items()]]}
    if isinstance(o, collections.OrderedDict):
        return {'$od': [[enc(k), enc(v)] for (k, v) in o.items()]}
    if isinstance(o, dict):
        return {'$d': [[enc(k), enc(v)] for (k, v) in o.items()]}
    if isinstance(o, (set, frozenset)):
        return {'$set' if isinstance(o, set) else '$fset': sorted((enc(x) for x in o), key=lambda j: json.dumps(j, sort_keys=True))}
    raise TypeError(f"codec: cannot encode {type(o).__name__}: {o!r}")


def dec(j: t.Any) -> t.Any:
    if j is None or isinstance(j, (bool, str, int)):
        return j
    if isinstance(j, float):
        return j
    if isinstance(j, list):
        return [dec(x) for x in j]
    if isinstance(j, dict):
        (k, v), = j.items()
        if k == '$e':
            from . import usertypes
            return usertypes.ENUMS[v[0]][v[1]]
        if k == '$nd':
            import numpy
            return numpy.array(dec(v[1]), dtype=v[0])
        if k == '$u':
            from . import usertypes
            return usertypes.LoudStr(v[1]) if v[0] == 'loud' else usertypes.SUBCLASSES[v[0]](dec(v[1]))
        if k == '$f':
            return float(v)
        if k == '$c':
            return complex(float(v[0]), float(v[1]))
        if k == '$ba':
            return bytearray(bytes.fromhex(v))
        if k == '$b':
            return bytes.fromhex(v)
        if k == '$t':
            return tuple(dec(x) for x in v)
        if k == '$r':
            return range(*v)
        if k == '$seq':
            return MySeq(dec(x) for x in v)
        if k == '$map':
            return MyMap((dec(a), dec(b)) for (a, b) in v)
        if k == '$mp':
            return types.MappingProxyType({dec(a): dec(b) for (a, b) in v})
        if k == '$dd':
            fac = {None: None, 'list': list, 'int': int, 'dict': dict, 'str': str}[v[0]]
            return collections.defaultdict(fac, ((dec(a), dec(b)) for (a, b) in v[1]))
        if k == '$od':
            return collections.OrderedDict((dec(a), dec(b)) for (a, b) in v)
        if k == '$d':
            return {dec(a): dec(b) for (a, b) in v}
        if k == '$set':
            return set(dec(x) for x in v)
        if k == '$fset':
            return frozenset(dec(x) for x in v)
    raise TypeError(f"codec: cannot decode {j!r}")


def dumps(o: t.Any) -> str:
    return json.dumps(enc(o), sort_keys=False)


def loads(s: str) -> t.Any:
    return dec(json.loads(s))


def short(o: t.Any, n: int = 400) -> str:
    """Readable bounded repr for evidence samples and messages."""
    try:
        s = repr(o)
    except Exception as e:  # repr of odd objects must never kill a run
        s = f"<unrepr-able {type(o).__name__}: {type(e).__name__}>"
    return s if len(s) <= n else s[:n - 3] + '...'


def clone(o: t.Any) -> t.Any:
    """Deep copy of case data (copy.deepcopy cannot copy mappingproxy)."""
    return dec(enc(o))
