"""Oracle helpers shared by the conversion properties."""

from __future__ import annotations

import typing as t

from . import tg
from .same import same
from .codec import short
from .core import Ctx, triage_exception


def outcome(f: t.Callable[[], t.Any]) -> t.Tuple[str, t.Any]:
    """-> ('ok', value) | ('ce', ConvertError) | ('exc', other exception)"""
    import pane
    try:
        return 'ok', f()
    except pane.ConvertError as e:
        return 'ce', e
    except RecursionError:
        raise
    except Exception as e:
        return 'exc', e


def conv_disagreement(nd: tg.Node, v: t.Any) -> t.Optional[t.Tuple[str, str]]:
    """Does from_data(v, T) disagree with the reference?  -> (oracle, detail) or None."""
    import pane
    r = nd.ref(v)
    T = nd.pytype()
    (kind, got) = outcome(lambda: pane.from_data(v, T))
    return judge_conv(nd, r, (kind, got), v, 'from_data')


def judge_conv(nd: tg.Node, r: tg.Verdict, out: t.Tuple[str, t.Any], v: t.Any, what: str) -> t.Optional[t.Tuple[str, str]]:
    (kind, got) = out
    call = f"{what}({short(v, 200)}, {nd.render()})"
    if kind == 'exc':
        k = triage_exception(got) or type(got).__name__
        return (f'only-converterror:{k}', f"{call} raised {type(got).__name__}: {str(got)[:300]}")
    if isinstance(r, tg.Acc):
        if kind == 'ce':
            return ('accepts-members', f"{call} was refused but the value is a member: {str(got)[:300]}")
        d = same(got, r.image)
        if d is not None:
            return ('typed-image', f"{call} returned {short(got, 200)}; {d}")
    elif isinstance(r, tg.Rej):
        if kind == 'ok':
            return ('rejects-non-members', f"{call} returned {short(got, 200)} but the value is not a member ({r.why})")
    return None


def blame(nd: tg.Node, v: t.Any, failing: t.Callable[[tg.Node, t.Any], bool], depth: int = 0) -> tg.Node:
    """
    Root-cause localisation: descend into the (child type, sub-value) pair that still fails the
    oracle on its own, as deep as possible; the kind of that node names the bucket.
    """
    if depth > 8:
        return nd
    try:
        pairs = nd.subpairs(v)
    except Exception:
        return nd
    for (child, x) in pairs:
        try:
            bad = failing(child, x)
        except Exception:
            bad = False
        if bad:
            return blame(child, x, failing, depth + 1)
    return nd


def report(ctx: Ctx, nd: tg.Node, v: t.Any, res: t.Optional[t.Tuple[str, str]],
           failing: t.Optional[t.Callable[[tg.Node, t.Any], bool]] = None) -> None:
    if res is None:
        return
    (oracle, detail) = res
    where = nd
    if failing is not None:
        where = blame(nd, v, failing)
    note = '' if where is nd else f"  [smallest failing sub-type: {where.render()[:200]}]"
    ctx.fail(oracle, where.kind, detail + note)
