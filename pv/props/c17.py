"""
C17  Inheritance and generics resolve fields, order and types correctly.

Generated: class-hierarchy *programs* of depth 1-4.  Every level may add fields,
override some in place (new type / default), put a KW_ONLY marker, set class
options, and - for generic bases - bind (G[int]), forward (G[U]), partially bind
(G[int, V]), permute (G[U, T]) or re-declare (Generic[V]) type variables; then the
leaf is subscripted.  Oracle: a model computed from the program alone (field
order over the MRO, in-place overriding, keyword-only reordering, substitution of
type variables through every level, nearest-definition option inheritance).
"""

from __future__ import annotations

import inspect
import typing as t

from hypothesis import strategies as st

from ..core import Suite, Ctx
from ..codec import short
from ..oracles import outcome

ID = 'C17'
RULE = ("Hypothesis: hierarchy programs (depth 1-4; per level: new fields, in-place overrides, KW_ONLY marker, kw_only fields, class options "
        "in_format/out_format/rename/allow_extra/kw_only/frozen/custom; generic parameters bound / forwarded / partially bound / permuted / "
        "re-declared, same variable name reused at several levels), then a concrete subscription of the leaf. Compared with the model: "
        "signature (names, kinds, annotations, defaults), repr and tuple-layout order, __parameters__, enforcement of substituted field types "
        "(accept a value of the substituted type, refuse a value of another instantiation), inherited options observed through behaviour. "
        "Non-trivial = depth >= 2 with an override or a keyword-only field, or a parameter that is forwarded, permuted or re-declared; distinct by program.")
ASSUMPTIONS = [
    "single inheritance chains; every type variable a level uses is declared by that level's base subscription or explicit Generic[...]",
    "annotations are compared after normalising typing / PEP 585 spellings",
]

T = t.TypeVar('T')
U = t.TypeVar('U')
V = t.TypeVar('V')
VARS = {'T': T, 'U': U, 'V': V}
CONCRETE = {'int': int, 'str': str, 'float': float}
GOOD = {'int': 5, 'str': 's', 'float': 1.5}
BAD = {'int': 'x', 'str': 5, 'float': 'x'}
DEFAULTS = {'int': 3, 'str': 'd', 'float': 2.5}

# ---- tiny type AST ----------------------------------------------------------------------------
# ('v', 'T') | ('c', 'int') | ('list', a) | ('opt', a) | ('dict', a) | ('tup', a, b)


_BOX: t.List[t.Any] = []


_SIDE: t.List[t.Any] = []
SV = t.TypeVar('SV')


def side() -> t.Any:
    """A second generic pane dataclass, used as a *sibling base*: class L(Main[...], SideGen[X]) inherits the keyword-only field side_f: X."""
    if not _SIDE:
        import pane
        import types as _types
        _SIDE.append(_types.new_class('SideGen', (pane.PaneBase, t.Generic[SV]), {},
                                      lambda ns: ns.update({'__annotations__': {'side_f': SV}, 'side_f': pane.field(default=None, kw_only=True)})))
    return _SIDE[0]


def box() -> t.Any:
    """A generic pane dataclass used as a *field type* of the generated classes: Box[X] holds one X."""
    if not _BOX:
        import pane
        import types as _types
        # (declared over the same variable T the generated classes use: Box[T] inside a class generic in T binds the variable to
        # itself, Box[U] / Box[int] bind it to something else - both must be substituted when the outer class is)
        BT = T
        _BOX.append(_types.new_class('Box', (pane.PaneBase, t.Generic[BT]), {}, lambda ns: ns.update({'__annotations__': {'v': BT}})))
    return _BOX[0]


def ast_build(a: t.Any) -> t.Any:
    k = a[0]
    if k == 'gen':
        return box()[ast_build(a[1])]
    if k == 'v':
        return VARS[a[1]]
    if k == 'c':
        return CONCRETE[a[1]]
    if k == 'list':
        return t.List[ast_build(a[1])]
    if k == 'opt':
        return t.Optional[ast_build(a[1])]
    if k == 'dict':
        return t.Dict[str, ast_build(a[1])]
    if k == 'slit':
        return {'k': ast_build(a[1])}        # a struct type written as a mapping of field types
    if k == 'tlit':
        return (ast_build(a[1]), ast_build(a[2]))    # a tuple type written as a tuple of types
    return t.Tuple[ast_build(a[1]), ast_build(a[2])]


def ast_subst(a: t.Any, env: t.Dict[str, t.Any]) -> t.Any:
    k = a[0]
    if k == 'v':
        return env.get(a[1], a)
    if k == 'c':
        return a
    return (k, *(ast_subst(x, env) for x in a[1:]))


def ast_vars(a: t.Any) -> t.List[str]:
    if a[0] == 'v':
        return [a[1]]
    if a[0] == 'c':
        return []
    out: t.List[str] = []
    for x in a[1:]:
        for v in ast_vars(x):
            if v not in out:
                out.append(v)
    return out


def ast_of(ty: t.Any) -> t.Any:
    """Normalise an actual annotation into the AST (typing and PEP 585 spellings alike)."""
    if isinstance(ty, t.TypeVar):
        return ('v', ty.__name__)
    for (n, c) in CONCRETE.items():
        if ty is c:
            return ('c', n)
    if isinstance(ty, type) and ty.__dict__.get('__origin__') is (_BOX[0] if _BOX else None) and _BOX:
        bound = list(ty.__dict__['__pane_boundvars__'].values())
        return ('gen', ast_of(bound[0])) if bound else ('gen', ('?', 'a parametrization that binds nothing'))
    if isinstance(ty, dict) and list(ty) == ['k']:
        return ('slit', ast_of(ty['k']))
    if isinstance(ty, tuple) and len(ty) == 2:
        return ('tlit', ast_of(ty[0]), ast_of(ty[1]))
    o, args = t.get_origin(ty), t.get_args(ty)
    if o is list:
        return ('list', ast_of(args[0]))
    if o is dict:
        return ('dict', ast_of(args[1]))
    if o is tuple:
        return ('tup', ast_of(args[0]), ast_of(args[1]))
    if o is t.Union and len(args) == 2 and type(None) in args:
        return ('opt', ast_of(args[0] if args[1] is type(None) else args[1]))
    return ('?', repr(ty))


def ast_render(a: t.Any) -> str:
    k = a[0]
    if k in ('v', 'c'):
        return a[1]
    if k == 'gen':
        return f"Box[{ast_render(a[1])}]"
    if k == 'list':
        return f"List[{ast_render(a[1])}]"
    if k == 'opt':
        return f"Optional[{ast_render(a[1])}]"
    if k == 'dict':
        return f"Dict[str, {ast_render(a[1])}]"
    if k == 'slit':
        return f"{{'k': {ast_render(a[1])}}}"
    if k == 'tlit':
        return f"({ast_render(a[1])}, {ast_render(a[2])})"
    return f"Tuple[{ast_render(a[1])}, {ast_render(a[2])}]"


def ast_value(a: t.Any, good: bool) -> t.Tuple[bool, t.Any]:
    """-> (is the verdict determined?, value).  A 'bad' value has one wrong leaf; types with free variables accept anything."""
    k = a[0]
    if k == 'v':
        return (good, {'anything': 1})
    if k == 'c':
        return (True, GOOD[a[1]] if good else BAD[a[1]])
    if k == 'gen':
        (d, x) = ast_value(a[1], good)
        return (d, {'v': x})
    if k == 'list':
        (d, x) = ast_value(a[1], good)
        return (d, [x])
    if k == 'opt':
        return ast_value(a[1], good)
    if k in ('dict', 'slit'):
        (d, x) = ast_value(a[1], good)
        return (d, {'k': x})
    (d1, x1) = ast_value(a[1], True)
    (d2, x2) = ast_value(a[2], good)
    return (d1 and d2, [x1, x2])


def ast_default(a: t.Any) -> t.Tuple[str, t.Any]:
    k = a[0]
    if k == 'c':
        return ('value', DEFAULTS[a[1]])
    if k in ('v', 'opt'):
        return ('value', None)
    if k == 'gen':
        return ('value', None)
    if k == 'list':
        return ('factory', [])
    if k == 'dict':
        return ('factory', {})
    return ('value', None)


# ---- program generation ---------------------------------------------------------------------

leaf_c = st.sampled_from(['int', 'str', 'float']).map(lambda n: ('c', n))


def type_asts(vars_: t.Sequence[str]) -> st.SearchStrategy[t.Any]:
    leaf = st.one_of(leaf_c, st.sampled_from(list(vars_)).map(lambda n: ('v', n))) if vars_ else leaf_c
    gen = st.tuples(st.just('gen'), leaf)
    return st.one_of(leaf, leaf, st.tuples(st.just('list'), leaf), st.tuples(st.just('opt'), leaf), st.tuples(st.just('dict'), leaf),
                     st.tuples(st.just('tup'), leaf, leaf), gen, st.tuples(st.just('list'), gen),
                     st.tuples(st.just('slit'), leaf), st.tuples(st.just('tlit'), leaf, leaf))


FIELD_POOL = ['a', 'b', 'c', 'd', 'e', 'f_long', 'g_two', 'h']
STYLES = ['camel', 'scream', 'kebab']


@st.composite
def programs(draw) -> t.Any:
    depth = draw(st.integers(1, 4))
    levels: t.List[t.Dict[str, t.Any]] = []
    params: t.List[str] = []         # free parameters of the previous level
    known: t.Dict[str, bool] = {}     # field name -> has default
    tuple_in = False
    for i in range(depth):
        lv: t.Dict[str, t.Any] = {'fields': [], 'opts': {}}
        if i == 0:
            params = draw(st.sampled_from([[], ['T'], ['T'], ['T', 'U'], ['U', 'T']]))
            lv['generic'] = list(params)
            lv['base_args'] = None
        else:
            if params and draw(st.integers(0, 4)) > 0:
                args = []
                for _ in params:
                    tv = st.sampled_from(['T', 'U']).map(lambda n: ('v', n))
                    args.append(draw(st.one_of(leaf_c, st.sampled_from(['T', 'U', 'V']).map(lambda n: ('v', n)),
                                               st.tuples(st.just('list'), tv),
                                               # a subscripted pane dataclass as the argument (a real class, not a typing alias)
                                               st.tuples(st.just('gen'), tv), st.tuples(st.just('list'), st.tuples(st.just('gen'), tv)))))
                lv['base_args'] = args
                free: t.List[str] = []
                for a in args:
                    for v in ast_vars(a):
                        if v not in free:
                            free.append(v)
                if free and draw(st.integers(0, 2)) == 2:
                    redecl = draw(st.permutations(free))
                    extra = [v for v in ['T', 'U', 'V'] if v not in free]
                    if extra and draw(st.integers(0, 2)) == 2:
                        redecl = [*redecl, extra[0]]
                    lv['generic'] = list(redecl)
                    params = list(redecl)
                else:
                    lv['generic'] = None
                    params = free
            else:
                lv['base_args'] = None
                lv['generic'] = None
        if i > 0 and not any(l_.get('side') for l_ in levels) and draw(st.integers(0, 3)) == 3:
            # a second generic pane base next to the main one; its argument may be a variable the main base has just bound
            sa = draw(st.one_of(leaf_c, st.sampled_from(['T', 'U', 'V']).map(lambda n: ('v', n))))
            lv['side'] = sa
            for v in ast_vars(sa):
                if lv.get('generic') is not None and v not in lv['generic']:
                    lv['generic'] = [*lv['generic'], v]
                if v not in params:
                    params = [*params, v]
        # options
        if draw(st.integers(0, 2)) == 2:
            lay = draw(st.sampled_from([['tuple', 'struct'], ['struct'], ['tuple']]))
            lv['opts']['in_format'] = lay
        if draw(st.integers(0, 4)) == 4:
            lv['opts']['rename'] = draw(st.sampled_from(STYLES))
        if draw(st.integers(0, 4)) == 4:
            lv['opts']['allow_extra'] = draw(st.booleans())
        if draw(st.integers(0, 5)) == 5:
            lv['opts']['frozen'] = draw(st.booleans())
        if draw(st.integers(0, 5)) == 5:
            lv['opts']['kw_only'] = True
        if draw(st.integers(0, 3)) == 3:
            lv['opts']['custom'] = draw(st.sampled_from(['double', 'triple', 'none']))
        if 'in_format' in lv['opts']:
            tuple_in = 'tuple' in lv['opts']['in_format']
        if i > 0 and draw(st.integers(0, 4)) == 4:
            lv['mixin'] = draw(st.sampled_from(['first', 'last']))    # a plain (non-pane) class among the bases
        # fields: new ones and overrides
        nnew = draw(st.integers(1 if i == 0 else 0, 2))
        names = [n for n in FIELD_POOL if n not in known]
        marker = None
        for j in range(nnew):
            if not names:
                break
            name = names.pop(0)
            ty = draw(type_asts(params))
            fs: t.Dict[str, t.Any] = {'name': name, 'type': ty}
            kw = draw(st.integers(0, 5)) == 5
            if kw:
                fs['kw_only'] = True
            any_opt = any(known.values())
            need_default = (any_opt or i > 0) if not kw else True
            if need_default or draw(st.booleans()):
                fs['default'] = list(ast_default(ty))
            known[name] = 'default' in fs
            lv['fields'].append(fs)
        if i > 0 and known and draw(st.integers(0, 2)) == 2:
            # override an inherited field in place: same defaultedness, new type
            name = draw(st.sampled_from(sorted(known)))
            if not any(f['name'] == name for f in lv['fields']):
                ty = draw(type_asts(params))
                fs = {'name': name, 'type': ty, 'override': True}
                if known[name]:
                    fs['default'] = list(ast_default(ty))
                lv['fields'].append(fs)
        if len(lv['fields']) >= 2 and draw(st.integers(0, 5)) == 5 and all('default' in f for f in lv['fields'][1:]):
            lv['kw_marker'] = 1
        levels.append(lv)
    leaf_args = [draw(st.sampled_from(['int', 'str', 'float'])) for _ in params]
    return {'levels': levels, 'leaf_args': leaf_args}


# ---- model ------------------------------------------------------------------------------------

class Model:
    def __init__(self, prog: t.Dict[str, t.Any]):
        self.prog = prog
        self.fields: t.Dict[str, t.Dict[str, t.Any]] = {}    # name -> {type ast, default, kw_only} in declaration/override order
        self.params: t.List[str] = []
        self.opts: t.Dict[str, t.Any] = {}
        self.per_level: t.List[t.Dict[str, t.Any]] = []
        for lv in prog['levels']:
            if lv.get('base_args') is not None:
                env = dict(zip(self.params, lv['base_args']))
                for f in self.fields.values():
                    f['type'] = ast_subst(f['type'], env)
                free: t.List[str] = []
                for a in lv['base_args']:
                    for v in ast_vars(a):
                        if v not in free:
                            free.append(v)
                self.params = free
            if lv.get('side') is not None:
                # fields are gathered base-most first and the sibling base sits behind the main chain in the MRO: its field leads
                self.fields = {'side_f': {'type': lv['side'], 'default': ['value', None], 'kw_only': True}, **self.fields}
                self.params = self.params + [v for v in ast_vars(lv['side']) if v not in self.params]
            if lv.get('generic') is not None:
                g = list(lv['generic'])
                self.params = g + [p for p in self.params if p not in g]
            self.opts.update(lv['opts'])
            kw_all = bool(self.opts.get('kw_only'))
            for (j, fs) in enumerate(lv['fields']):
                kw = bool(fs.get('kw_only')) or kw_all or (lv.get('kw_marker') is not None and j >= lv['kw_marker'])
                self.fields[fs['name']] = {'type': fs['type'], 'default': fs.get('default'), 'kw_only': kw} \
                    if fs['name'] not in self.fields else {**self.fields[fs['name']], 'type': fs['type'], 'default': fs.get('default'), 'kw_only': kw}
            self.per_level.append({'fields': {k: dict(v) for (k, v) in self.fields.items()}, 'params': list(self.params), 'opts': dict(self.opts)})

    @staticmethod
    def ordered(fields: t.Dict[str, t.Dict[str, t.Any]]) -> t.List[t.Tuple[str, t.Dict[str, t.Any]]]:
        items = list(fields.items())
        return [x for x in items if not x[1]['kw_only']] + [x for x in items if x[1]['kw_only']]

    def valid_program(self) -> t.Optional[str]:
        """Reasons pane must refuse the program (then the check expects TypeError)."""
        for st_ in self.per_level:
            seen_opt = False
            tuple_in = 'tuple' in (st_['opts'].get('in_format') or ['struct'])
            for (n, f) in self.ordered(st_['fields']):
                if f['kw_only']:
                    if f['default'] is None and tuple_in:
                        return f"kw-only mandatory field {n} with tuple input"
                    continue
                if f['default'] is not None:
                    seen_opt = True
                elif seen_opt:
                    return f"mandatory field {n} after an optional one"
        return None


class DoubleInt:
    pass


def _handlers():
    from pane.converters import Converter
    from pane.errors import ParseInterrupt, WrongTypeError

    class Mul(Converter[int]):
        def __init__(self, k: int):
            self.k = k

        def into_data(self, val):
            return val // self.k

        def expected(self, plural=False):
            return 'ints' if plural else 'an int'

        def try_convert(self, val):
            if type(val) is int:
                return val * self.k
            raise ParseInterrupt()

        def collect_errors(self, val):
            return None if type(val) is int else WrongTypeError('an int', val)
    return {'double': {int: Mul(2)}, 'triple': {int: Mul(3)}, 'none': {}}


class _Mixin:
    """A plain helper class: contributes methods only, no fields, no options."""
    def describe(self) -> str:
        return f"<{type(self).__name__}>"


_H: t.Dict[str, t.Any] = {}
_KEEP: t.List[t.Any] = []


def build(prog: t.Dict[str, t.Any]) -> t.List[t.Any]:
    import pane
    if not _H:
        _H.update(_handlers())
    classes: t.List[t.Any] = []
    prev: t.Any = pane.PaneBase
    for (i, lv) in enumerate(prog['levels']):
        base = prev
        if lv.get('base_args') is not None:
            args = tuple(ast_build(a) for a in lv['base_args'])
            base = prev[args if len(args) > 1 else args[0]]
        bases: t.Tuple[t.Any, ...] = (base,)
        if lv.get('side') is not None:
            bases = (base, side()[ast_build(lv['side'])])
        if lv.get('mixin'):
            mix = type(f"Mixin{i}", (), {'describe': _Mixin.describe})     # one plain class per level (no MRO conflicts)
            bases = (mix, *bases) if lv['mixin'] == 'first' else (*bases, mix)
        if lv.get('generic'):
            bases = (*bases, t.Generic[tuple(VARS[v] for v in lv['generic'])])  # type: ignore
        ann: t.Dict[str, t.Any] = {}
        ns: t.Dict[str, t.Any] = {'__annotations__': ann, '__module__': 'pv.generated'}
        for (j, fs) in enumerate(lv['fields']):
            if lv.get('kw_marker') is not None and j == lv['kw_marker']:
                ann['_'] = pane.KW_ONLY
            ann[fs['name']] = ast_build(fs['type'])
            kw: t.Dict[str, t.Any] = {}
            if fs.get('kw_only'):
                kw['kw_only'] = True
            d = fs.get('default')
            if d is not None:
                if d[0] == 'factory':
                    kw['default_factory'] = (lambda o: (lambda: type(o)()))(d[1])
                elif kw:
                    kw['default'] = d[1]
                else:
                    ns[fs['name']] = d[1]
                    continue
            if kw:
                ns[fs['name']] = pane.field(**kw)
        opts = {k: (tuple(v) if isinstance(v, list) else v) for (k, v) in lv['opts'].items()}
        if 'custom' in opts:
            opts['custom'] = _H[opts['custom']]
        cls = t.cast(t.Any, None)
        import types as _types
        cls = _types.new_class(f"L{i}", bases, opts, lambda n: n.update(ns))
        _KEEP.append(cls)
        classes.append(cls)
        prev = cls
    return classes


def render(prog: t.Any) -> t.Any:
    lines = []
    for (i, lv) in enumerate(prog['levels']):
        base = 'PaneBase' if i == 0 else f"L{i - 1}"
        if lv.get('base_args') is not None:
            base += '[' + ', '.join(ast_render(a) for a in lv['base_args']) + ']'
        if lv.get('side') is not None:
            base += f", SideGen[{ast_render(lv['side'])}]"
        if lv.get('mixin'):
            base = f"Mixin, {base}" if lv['mixin'] == 'first' else f"{base}, Mixin"
        if lv.get('generic'):
            base += f", Generic[{', '.join(lv['generic'])}]"
        o = ''.join(f", {k}={v!r}" for (k, v) in lv['opts'].items())
        lines.append(f"class L{i}({base}{o}):")
        for (j, fs) in enumerate(lv['fields']):
            if lv.get('kw_marker') is not None and j == lv['kw_marker']:
                lines.append("  _: KW_ONLY")
            extra = ''.join(f" {k}={fs[k]!r}" for k in ('default', 'kw_only', 'override') if fs.get(k) is not None)
            lines.append(f"  {fs['name']}: {ast_render(fs['type'])}{(' #' + extra) if extra else ''}")
        if not lv['fields']:
            lines.append("  pass")
    lines.append(f"leaf subscription: L{len(prog['levels']) - 1}[{', '.join(prog['leaf_args'])}]")
    return '\n'.join(lines)


def check(prog: t.Any, ctx: Ctx) -> None:
    import pane
    m = Model(prog)
    src = render(prog)
    depth = len(prog['levels'])
    fancy = any(lv.get('base_args') and (lv.get('generic') or any(a[0] != 'c' for a in lv['base_args'])) for lv in prog['levels'])
    ctx.label(f"depth:{depth}", 'generic' if any(lv.get('generic') or lv.get('base_args') for lv in prog['levels']) else 'plain')
    ctx.nontrivial((depth >= 2 and (any(f.get('override') for lv in prog['levels'] for f in lv['fields']) or any(f['kw_only'] for f in m.fields.values()))) or fancy)
    bad = m.valid_program()
    (k, classes) = outcome(lambda: build(prog))
    ctx.evaluated()
    if bad is not None:
        if k == 'ok':
            ctx.fail('refuses-ill-formed', 'accepted', f"{src}\n-- must be refused ({bad}) but the classes were created")
        elif not isinstance(classes, TypeError):
            ctx.fail('refuses-ill-formed', type(classes).__name__, f"{src}\n-- must be refused with TypeError ({bad}), got {type(classes).__name__}: {classes}")
        else:
            ctx.label('refused-as-expected')
        return
    if k != 'ok':
        ctx.fail('hierarchy-builds', f"{type(classes).__name__}", f"{src}\n-- class creation raised {type(classes).__name__}: {str(classes)[:300]}")
        return

    # ---- every level: signature, parameters ---------------------------------------------------------
    for (i, (cls, st_)) in enumerate(zip(classes, m.per_level)):
        ctx.evaluated()
        want_params = st_['params']
        got_params = [p.__name__ for p in getattr(cls, '__parameters__', ())]
        if got_params != want_params:
            ctx.fail('type-parameters', f"level{min(i, 3)}", f"{src}\n-- L{i}.__parameters__ = {got_params}, expected {want_params}")
            return
        r = compare_signature(cls, Model.ordered(st_['fields']), f"L{i}")
        if r:
            ctx.fail('signature', r[0], f"{src}\n-- {r[1]}")
            return

    # ---- leaf subscription ------------------------------------------------------------------------------
    leaf = classes[-1]
    fields = {k: dict(v) for (k, v) in m.fields.items()}
    if m.params:
        args = tuple(CONCRETE[a] for a in prog['leaf_args'])
        (k, sub) = outcome(lambda: leaf[args if len(args) > 1 else args[0]])
        ctx.evaluated()
        if k != 'ok':
            ctx.fail('subscription', type(sub).__name__, f"{src}\n-- subscripting the leaf raised {type(sub).__name__}: {str(sub)[:200]}")
            return
        env = {p: ('c', a) for (p, a) in zip(m.params, prog['leaf_args'])}
        for f in fields.values():
            f['type'] = ast_subst(f['type'], env)
        r = compare_signature(sub, Model.ordered(fields), f"L{depth - 1}[{', '.join(prog['leaf_args'])}]")
        if r:
            ctx.fail('signature', 'subscripted:' + r[0], f"{src}\n-- {r[1]}")
            return
        leaf = sub
    ordered = Model.ordered(fields)

    # ---- conversion enforces the substituted types; options are inherited ------------------------------------
    in_format = m.opts.get('in_format') or ['struct']
    rename = m.opts.get('rename')

    def key_of(n: str) -> str:
        if not rename:
            return n
        words = n.split('_')
        return {'camel': words[0] + ''.join(w.capitalize() for w in words[1:]), 'scream': n.upper(), 'kebab': '-'.join(words)}[rename]

    custom = m.opts.get('custom')
    mul = {'double': 2, 'triple': 3}.get(custom or '', 1)

    def expect_val(a: t.Any, v: t.Any) -> t.Any:
        """image of a GOOD value under the substituted type, with the class-level int handler applied"""
        k_ = a[0]
        if k_ == 'c':
            return v * mul if a[1] == 'int' else v
        if k_ == 'v':
            return v
        if k_ == 'gen':
            return ('box', expect_val(a[1], v['v']))
        if k_ == 'list':
            return [expect_val(a[1], v[0])]
        if k_ == 'opt':
            return expect_val(a[1], v)
        if k_ in ('dict', 'slit'):
            return {'k': expect_val(a[1], v['k'])}
        return (expect_val(a[1], v[0]), expect_val(a[2], v[1]))

    good = {n: ast_value(f['type'], True)[1] for (n, f) in ordered}
    data = {key_of(n): v for (n, v) in good.items()}
    if 'struct' in in_format:
        (k, inst) = outcome(lambda: leaf.from_data(data))
        ctx.evaluated()
        if k != 'ok':
            ctx.fail('substituted-types-enforced', 'good-refused', f"{src}\n-- from_data({short(data, 200)}) should be accepted: {str(inst)[:300]}")
            return
        for (n, f) in ordered:
            want = expect_val(f['type'], good[n])
            if not matches(getattr(inst, n), want):
                ctx.fail('inherited-options', 'custom-handlers' if mul != 1 or custom else 'value', f"{src}\n-- field {n}: got {getattr(inst, n)!r}, expected {want!r} "
                         f"(class-level custom handlers in effect: {custom!r})")
                return
        want_repr = f"{type(inst).__name__}(" + ', '.join(f"{n}={getattr(inst, n)!r}" for (n, _) in ordered) + ")"
        if repr(inst) != want_repr:
            ctx.fail('field-order', 'repr', f"{src}\n-- repr {repr(inst)!r}, model order gives {want_repr!r}")
            return
        out = inst.into_data()
        if isinstance(out, dict) and list(out) != [key_of(n) for (n, _) in ordered]:
            ctx.fail('inherited-options', 'rename', f"{src}\n-- into_data() keys {list(out)}, expected {[key_of(n) for (n, _) in ordered]}")
            return
        for (n, f) in ordered:
            (det, badv) = ast_value(f['type'], False)
            if not det:
                continue
            d2 = dict(data)
            d2[key_of(n)] = badv
            (k, r2) = outcome(lambda: leaf.from_data(d2))
            ctx.evaluated()
            if k == 'ok':
                ctx.fail('substituted-types-enforced', 'bad-accepted', f"{src}\n-- field {n} has type {ast_render(f['type'])}; from_data({short(d2, 200)}) should be refused, gave {short(r2, 120)}")
                return
        d3 = dict(data)
        d3['zz_extra'] = 1
        (k, r3) = outcome(lambda: leaf.from_data(d3))
        if (k == 'ok') != bool(m.opts.get('allow_extra')):
            ctx.fail('inherited-options', 'allow_extra', f"{src}\n-- allow_extra={m.opts.get('allow_extra')} but an extra key was {'accepted' if k == 'ok' else 'refused'}")
            return
        frozen = m.opts.get('frozen', True)
        (k, _) = outcome(lambda: setattr(inst, ordered[0][0], good[ordered[0][0]]) if ordered else None)
        if ordered and (k == 'ok') == bool(frozen):
            ctx.fail('inherited-options', 'frozen', f"{src}\n-- frozen={frozen} but assignment {'succeeded' if k == 'ok' else 'failed'}")
            return
    pos = [(n, f) for (n, f) in ordered if not f['kw_only']]
    seq = [good[n] for (n, _) in pos]
    (k, inst2) = outcome(lambda: leaf.from_data(seq))
    ctx.evaluated()
    if (k == 'ok') != ('tuple' in in_format):
        ctx.fail('inherited-options', 'in_format', f"{src}\n-- in_format={in_format} but positional data {short(seq, 100)} was {'accepted' if k == 'ok' else 'refused: ' + str(inst2)[:150]}")
        return
    if k == 'ok':
        for ((n, f), v) in zip(pos, seq):
            if not matches(getattr(inst2, n), expect_val(f['type'], v)):
                ctx.fail('field-order', 'tuple-layout', f"{src}\n-- positional data bound {n}={getattr(inst2, n)!r}, expected {expect_val(f['type'], v)!r}")
                return
    # generic parameters are ignored by ==
    if m.params and 'struct' in in_format:
        (k, other) = outcome(lambda: classes[-1].make_unchecked(**{n: getattr(inst, n) for (n, _) in ordered}))
        if k == 'ok' and m.opts.get('eq', True) and not (other == inst):
            ctx.fail('eq-ignores-parameters', 'generic', f"{src}\n-- an instance of the subscripted class and one of the unsubscripted class with equal fields compare unequal")


def matches(got: t.Any, want: t.Any) -> bool:
    if isinstance(want, tuple) and len(want) == 2 and want[0] == 'box':
        return hasattr(got, '__pane_info__') and type(got).__name__ == 'Box' and matches(got.v, want[1])
    if isinstance(want, list):
        return isinstance(got, list) and len(got) == len(want) and all(matches(g, w) for (g, w) in zip(got, want))
    if isinstance(want, tuple):
        return isinstance(got, tuple) and len(got) == len(want) and all(matches(g, w) for (g, w) in zip(got, want))
    if isinstance(want, dict):
        return isinstance(got, dict) and got.keys() == want.keys() and all(matches(got[k], w) for (k, w) in want.items())
    return got == want and type(got) is type(want)


def compare_signature(cls: t.Any, ordered: t.List[t.Tuple[str, t.Dict[str, t.Any]]], what: str) -> t.Optional[t.Tuple[str, str]]:
    try:
        sig = inspect.signature(cls)
    except Exception as e:
        return ('signature-raises', f"inspect.signature({what}) raised {type(e).__name__}: {e}")
    ps = list(sig.parameters.values())
    if [p.name for p in ps] != [n for (n, _) in ordered]:
        return ('order', f"{what}{sig}: parameter order {[p.name for p in ps]}, model order {[n for (n, _) in ordered]}")
    for (p, (n, f)) in zip(ps, ordered):
        kind = inspect.Parameter.KEYWORD_ONLY if f['kw_only'] else inspect.Parameter.POSITIONAL_OR_KEYWORD
        if p.kind != kind:
            return ('kind', f"{what}{sig}: parameter {n} is {p.kind.name}, expected {kind.name}")
        if ast_of(p.annotation) != f['type']:
            return ('annotation', f"{what}{sig}: parameter {n} annotated {p.annotation!r}, the substituted type is {ast_render(f['type'])}")
        if f['default'] is None:
            if p.default is not inspect.Parameter.empty:
                return ('default', f"{what}{sig}: parameter {n} should have no default")
        elif p.default != f['default'][1] or type(p.default) is not type(f['default'][1]):
            return ('default', f"{what}{sig}: parameter {n} default {p.default!r}, expected {f['default'][1]!r}")
    return None


# ---- arguments which are equal without being the same type ---------------------------------------------------------------
#
# Literal[1] and Literal[True] (0 and False) are different types - typing itself keeps them apart - although 1 == True.  Subscripting
# with one after the other substitutes *that* argument, in either order, directly and through a further level of inheritance.

LIT_PAIRS = [(1, True), (True, 1), (0, False), (False, 0), (1, 1), ('1', 1)]


def literal_cases(shard: int, nshards: int) -> t.Iterator[t.Any]:
    i = 0
    for pi in range(len(LIT_PAIRS)):
        for depth in ('direct', 'inherited', 'nested'):
            if i % nshards == shard:
                yield [pi, depth]
            i += 1


def check_literals(case: t.Any, ctx: Ctx) -> None:
    import inspect
    import pane
    import types as _types
    (pi, depth) = case
    (a, b) = LIT_PAIRS[pi]
    ctx.label(f"literal-arguments:{depth}")
    ctx.nontrivial(type(a) is not type(b))
    G = _types.new_class('LitBox', (pane.PaneBase, t.Generic[T]), {}, lambda ns: ns.update({'__annotations__': {'v': T, 'w': t.List[T]}}))
    if depth == 'inherited':
        G = _types.new_class('LitBoxSub', (G[T],), {}, lambda ns: ns.update({'__annotations__': {'extra': int}, 'extra': 0}))
    seen = []
    for x in (a, b):
        arg = t.Literal[x] if depth != 'nested' else t.Optional[t.Literal[x]]      # type: ignore[valid-type]
        ctx.evaluated()
        try:
            C = G[arg]
            ann = {f.name: f.type for f in C.__pane_info__.fields}
        except Exception as e:
            ctx.fail('substitution', f"literal-argument:{type(e).__name__}", f"LitBox[{arg}] raised {type(e).__name__}: {str(e)[:150]}")
            return
        want = {'v': arg, 'w': t.List[arg]}
        got = {k: ann.get(k) for k in want}
        inner = {'v': got['v'], 'w': (t.get_args(got['w']) or (None,))[0] if t.get_origin(got['w']) is list else None}
        # (typing's == tells Literal[1] from Literal[True]; repr does too)
        if any(x != arg or repr(x) != repr(arg) for x in inner.values()):
            ctx.fail('substitution', 'literal-argument-of-equal-value', f"{G.__name__}[{arg}] (asked for after {[repr(s) for s in seen]}) has fields {got}, wanted {want}; "
                     f"signature {inspect.signature(C)}")
            return
        seen.append(arg)


# ---- unions that shrink when the argument is already a member -------------------------------------------------------------------------
#
# value: Union[int, str, T] with T := int is Union[int, str]: substitution, then de-duplication, through any depth - no type variable
# stays behind, whichever members the argument repeats, and conversion enforces what is left.

UF_ARGS = {'int': int, 'str': str, 'float': float, 'bool': bool, 'Union[str, int]': t.Union[str, int], 'Union[float, int]': t.Union[float, int], 'NoneType': type(None),
           'None': None}        # (the way Optional-less code writes it: Result[None]; typing reads it as NoneType)
UF_SHAPES = ['Union[int, str, T]', 'Union[T, int, str]', 'List[Union[bool, float, T, U]]', 'Optional[Union[int, T]]', 'Dict[str, Union[int, str, T]]']


def uf_cases(shard: int, nshards: int) -> t.Iterator[t.Any]:
    i = 0
    for sh in range(len(UF_SHAPES)):
        for a in UF_ARGS:
            for b in (['-'] if 'U' not in UF_SHAPES[sh].replace('Union', '') else list(UF_ARGS)):
                for how in ('subscript', 'inherit'):
                    if i % nshards == shard:
                        yield [sh, a, b, how]
                    i += 1


def check_union_fields(case: t.Any, ctx: Ctx) -> None:
    import pane
    import types as _types
    from pane.util import flatten_union_args
    (sh, a, b, how) = case
    shape = UF_SHAPES[sh]
    (A, B) = (UF_ARGS[a], UF_ARGS.get(b))
    members = {'Union[int, str, T]': [int, str, T], 'Union[T, int, str]': [T, int, str], 'List[Union[bool, float, T, U]]': [bool, float, T, U],
               'Optional[Union[int, T]]': [int, T, type(None)], 'Dict[str, Union[int, str, T]]': [int, str, T]}[shape]
    inner = t.Union[tuple(members)]     # type: ignore
    ftype = {'Union[int, str, T]': inner, 'Union[T, int, str]': inner, 'List[Union[bool, float, T, U]]': list[inner], 'Optional[Union[int, T]]': inner,
             'Dict[str, Union[int, str, T]]': dict[str, inner]}[shape]
    two = U in members
    G = _types.new_class('Setting', (pane.PaneBase, t.Generic[(T, U) if two else (T,)]), {}, lambda ns: ns.update({'__annotations__': {'name': str, 'value': ftype}}))  # type: ignore
    args = (A, B) if two else (A,)
    ctx.label(f"union-fields:{how}")
    ctx.nontrivial(True)
    ctx.evaluated()
    try:
        C = G[args if two else A]
        if how == 'inherit':
            C = _types.new_class('Derived', (C,), {}, lambda ns: ns.update({'__annotations__': {'unit': str}, 'unit': ''}))
    except Exception as e:
        ctx.fail('substitution', f"union-field:{type(e).__name__}", f"Setting(value: {shape})[{a}{', ' + b if two else ''}] raised {type(e).__name__}: {str(e)[:150]}")
        return
    env = {T: A, U: B}
    want: t.List[t.Any] = []
    for m in flatten_union_args([env.get(m, m) for m in members]):
        m = type(None) if m is None else m
        if m not in want:
            want.append(m)
    got_t = {f.name: f.type for f in C.__pane_info__.fields}['value']
    got_inner = got_t if shape.startswith(('Union', 'Optional')) else t.get_args(got_t)[-1]
    got = list(t.get_args(got_inner)) if t.get_origin(got_inner) is t.Union else [got_inner]
    ident = f"class Setting(name: str, value: {shape}); {'class Derived(' if how == 'inherit' else ''}Setting[{a}{', ' + b if two else ''}]{')' if how == 'inherit' else ''}"
    if got != want:
        ctx.fail('substitution', 'union-field-members', f"{ident}: field value is {got_t!r}; members {got}, wanted {want}")
        return
    # enforcement: one probe per candidate kind
    probes = [(5, int), ('s', str), (2.5, float), (True, bool), (None, type(None)), ([1], list)]
    for (pv_, kind) in probes:
        ok_want = kind in want or (kind is int and (float in want) and int not in want and False)
        if kind is int and int not in want and float in want:
            continue        # (int widens to float: accepted, as 5.0)
        if kind is bool and bool not in want and (int in want or float in want):
            continue        # (bool given to a numeric target: unspecified)
        data = {'Union[int, str, T]': pv_, 'Union[T, int, str]': pv_, 'List[Union[bool, float, T, U]]': [pv_], 'Optional[Union[int, T]]': pv_,
                'Dict[str, Union[int, str, T]]': {'k': pv_}}[shape]
        ctx.evaluated()
        (k, r) = outcome(lambda: C.from_data({'name': 'n', 'value': data}))
        if k == 'exc' or (k == 'ok') != ok_want:
            ctx.fail('enforcement', 'union-field', f"{ident}: value {data!r} {'accepted' if k == 'ok' else 'refused' if k == 'ce' else 'raised ' + type(r).__name__}; "
                     f"the members are {want}")
            return


def suites(tier: str) -> t.List[Suite]:
    big = tier == 'thorough'
    return [Suite('hierarchy', check, strategy=programs, examples=6000 if big else 500, budget_s=480 if big else 40, render=render),
            Suite('union-fields', check_union_fields, cases=uf_cases, exhaustive=True, budget_s=60,
                  render=lambda c: {'field type': UF_SHAPES[c[0]], 'T': c[1], 'U': c[2], 'how': c[3]}),
            Suite('literal-arguments', check_literals, cases=literal_cases, exhaustive=True, budget_s=30,
                  render=lambda c: {'literal arguments, in this order': list(LIT_PAIRS[c[0]]), 'how': c[1]})]
