"""
C09  Conversion never mutates its input.

Every dict / list in the value (at every depth) is replaced by a spy subclass
that records calls to mutating methods; a deep structural snapshot (types,
contents, key order) is taken before and compared after from_data, convert,
Cls.from_data, Cls(**kw) and - for the typed result - into_data.
"""

from __future__ import annotations

import collections
import copy
import typing as t

from hypothesis import strategies as st

from ..core import Suite, Ctx
from .. import tg, cg, gen, codec
from ..codec import short
from ..oracles import outcome

ID = 'C09'
RULE = ("Hypothesis: shared conversion generator, both verdicts (valid, mutated, arbitrary), every dict/list replaced by a recording spy; "
        "snapshot-before == snapshot-after and no mutator call recorded, for from_data, convert, Cls.from_data, keyword / positional construction, "
        "make_unchecked, from_dict_unchecked (with defaulted fields left out), __replace__ on an instance (fields and set-field record of the original) "
        "and into_data of the typed result. Non-trivial = the value contains a mapping that passes through an internally tagged union, or a "
        "dataclass mapping (aliases/duplicates/extras), or a nested container below the root; distinct by (type spec, value).")
ASSUMPTIONS = ["mutation through a C-level API that bypasses the overridden methods of dict/list subclasses is caught by the snapshot only"]

MUTATORS_DICT = ['__setitem__', '__delitem__', 'pop', 'popitem', 'clear', 'update', 'setdefault', '__ior__']
MUTATORS_LIST = ['__setitem__', '__delitem__', 'append', 'extend', 'insert', 'pop', 'remove', 'clear', 'sort', 'reverse', '__iadd__', '__imul__']

LOG: t.List[str] = []


def _spy(base: type, names: t.List[str]) -> type:
    ns: t.Dict[str, t.Any] = {}
    for n in names:
        def mk(n=n):
            orig = getattr(base, n)

            def f(self, *a, **k):
                LOG.append(f"{base.__name__}.{n}")
                return orig(self, *a, **k)
            f.__name__ = n
            return f
        ns[n] = mk()
    return type('Spy' + base.__name__.capitalize(), (base,), ns)


SpyDict = _spy(dict, MUTATORS_DICT)
SpyList = _spy(list, MUTATORS_LIST)


def spyify(v: t.Any) -> t.Any:
    if type(v) is dict:
        return SpyDict((k, spyify(x)) for (k, x) in v.items())
    if type(v) is list:
        return SpyList(spyify(x) for x in v)
    if type(v) is tuple:
        return tuple(spyify(x) for x in v)
    if isinstance(v, codec.MySeq):
        return codec.MySeq(spyify(x) for x in v)
    if isinstance(v, codec.MyMap):
        return codec.MyMap((k, spyify(x)) for (k, x) in v.items())
    if isinstance(v, collections.defaultdict):
        return collections.defaultdict(v.default_factory, ((k, spyify(x)) for (k, x) in v.items()))
    return v


def snapshot(v: t.Any) -> str:
    def plain(x: t.Any) -> t.Any:
        if isinstance(x, SpyDict):
            return {'$spyd': [[plain(k), plain(y)] for (k, y) in dict.items(x)]}
        if isinstance(x, SpyList):
            return {'$spyl': [plain(y) for y in list.__iter__(x)]}
        if type(x) is tuple:
            return {'$t': [plain(y) for y in x]}
        if isinstance(x, codec.MySeq):
            return {'$seq': [plain(y) for y in x]}
        if isinstance(x, codec.MyMap):
            return {'$map': [[plain(k), plain(y)] for (k, y) in x.items()]}
        try:
            return codec.enc(x)
        except TypeError:
            return repr(x)
    import json
    return json.dumps(plain(v), sort_keys=False, default=repr)


def check(case: t.Any, ctx: Ctx) -> None:
    import pane
    (spec, v0, how) = case[:3]
    nd = tg.node(spec)
    T = nd.pytype()
    ctx.label(how, f"root:{nd.kind.split(':')[0]}")
    interesting = any(isinstance(n, (cg.ClsNode, cg.TaggedNode)) for n in nd.walk()) and tg.is_map(v0)
    nested = (tg.is_seq(v0) or tg.is_map(v0)) and any(tg.is_seq(x) or tg.is_map(x) for x in (v0.values() if tg.is_map(v0) else v0))
    ctx.nontrivial(interesting or nested)

    calls: t.List[t.Tuple[str, t.Callable[[t.Any], t.Any]]] = [
        ('from_data', lambda v: pane.from_data(v, T)),
        ('convert', lambda v: pane.convert(v, T)),
    ]
    named: t.Any = None
    if isinstance(nd, cg.ClsNode):
        calls.append(('Cls.from_data', lambda v: T.from_data(v)))
        if tg.is_map(v0) and all(isinstance(k, str) and k.isidentifier() for k in v0):
            calls.append(('Cls(**kw)', lambda v: T(**v)))
        if tg.is_map(v0):
            # the other construction paths take python field names: re-key the entries that name a field (defaults stay omitted)
            named = {nd.by_key[k][0].name: x for (k, x) in v0.items() if isinstance(k, str) and k in nd.by_key}
            calls.append(('Cls.from_dict_unchecked', lambda v: T.from_dict_unchecked(v)))
            calls.append(('Cls.make_unchecked(**kw)', lambda v: T.make_unchecked(**v)))
            calls.append(('Cls(**named)', lambda v: T(**v)))
        if tg.is_seq(v0) and not isinstance(v0, range):
            calls.append(('Cls(*args)', lambda v: T(*v)))
    if isinstance(nd, cg.ClsNode):
        check_replace(nd, v0, ctx)
    for (what, f) in calls:
        v = spyify(named if what in ('Cls.from_dict_unchecked', 'Cls.make_unchecked(**kw)', 'Cls(**named)') else v0)
        before = snapshot(v)
        del LOG[:]
        (k, res) = outcome(lambda: f(v))
        log = list(LOG)
        after = snapshot(v)
        ctx.evaluated()
        if what in ('Cls(**kw)', 'Cls.make_unchecked(**kw)', 'Cls(**named)', 'Cls(*args)'):
            log = []   # * / ** unpacking copies the outer container; only the snapshot is meaningful
        if before != after or log:
            ctx.fail('input-unchanged', f"{what}/{nd.kind}", f"{what} on T = {nd.render()[:300]} ({'accepted' if k == 'ok' else 'rejected'}): "
                     f"mutating calls {log[:5]}; before {before[:200]} after {after[:200]}")
            return
        if k == 'ok' and what == 'from_data':
            # into_data must not modify the typed value either
            x = res
            try:
                xb = copy.deepcopy(x)
            except Exception:
                continue
            (k2, _) = outcome(lambda: pane.into_data(x, T))
            from ..same import same
            ctx.evaluated()
            d = same(x, xb)
            if d is not None:
                ctx.fail('input-unchanged', f"into_data/{nd.kind}", f"into_data(x, T) changed its argument, T = {nd.render()[:300]}: {d}")
                return


def check_replace(nd: t.Any, v0: t.Any, ctx: Ctx) -> None:
    """Construction *from an instance*: obj.__replace__(field=value) builds a new instance and leaves obj - its fields and its
    record of explicitly set fields - as it was, whether the replacement succeeds or is refused."""
    import pane
    T = nd.pytype()
    (k, x0) = outcome(lambda: pane.from_data(v0, T))
    if k != 'ok':
        return
    rec0 = set(getattr(x0, '__pane_set__', ()))
    try:
        (repr0, copy0) = (repr(x0), copy.deepcopy(x0))
    except Exception:
        return
    from ..same import same
    for f in nd.fields:
        if not f.init or not hasattr(x0, f.name):
            continue
        for val in (getattr(x0, f.name), object()):
            (kr, _) = outcome(lambda: x0.__replace__(**{f.name: val}))
            ctx.evaluated()
            rec1 = set(getattr(x0, '__pane_set__', ()))
            if rec1 != rec0 or repr(x0) != repr0 or same(x0, copy0) is not None:
                ctx.fail('input-unchanged', f"__replace__/{'unset-field' if f.name not in rec0 else 'set-field'}",
                         f"T = {nd.render()[:300]}; x = {repr0[:150]} with set-field record {sorted(rec0)}; after x.__replace__({f.name}=...) "
                         f"({'accepted' if kr == 'ok' else 'refused'}) x is {repr(x0)[:150]} with record {sorted(rec1)}")
                return


# ---- a variant with a converter of its own -----------------------------------------------------------------------------------
#
# A tagged union adds the tag around / into what the variant's converter writes.  A user's converter may hand out a mapping the
# value itself holds (as the built-in converter for Any hands out the value): the union must not write into it.

_HC: t.Dict[str, t.Any] = {}


def hasconv_cases(shard: int, nshards: int) -> t.Iterator[t.Any]:
    i = 0
    for lay in ('internal', 'external', 'adjacent'):
        for where in ('bare', 'List', 'field', 'Optional'):
            for mk in ('OrderedDict', 'dict', 'MyMap'):
                if i % nshards == shard:
                    yield [lay, where, mk]
                i += 1


def check_hasconv(case: t.Any, ctx: Ctx) -> None:
    import pane
    from pane.annotations import Tagged
    from pane.converters import Converter
    from pane.errors import ParseInterrupt, WrongTypeError
    (lay, where, mk) = case
    if 'Props' not in _HC:
        class PropsConv(Converter):      # type: ignore
            def expected(self, plural: bool = False) -> str:
                return 'properties'

            def try_convert(self, val: t.Any) -> t.Any:
                if isinstance(val, _HC['Props']):
                    return val
                if not tg.is_map(val):
                    raise ParseInterrupt()
                return _HC['Props'](collections.OrderedDict(val))

            def collect_errors(self, val: t.Any) -> t.Any:
                return None if (tg.is_map(val) or isinstance(val, _HC['Props'])) else WrongTypeError(self.expected(), val)

            def into_data(self, val: t.Any) -> t.Any:
                return val.d          # the mapping the value holds

        class Props:
            kind = 'props'

            def __init__(self, d: t.Any) -> None:
                self.d = d

            @classmethod
            def _converter(cls, *args: t.Any, handlers: t.Any = None) -> t.Any:
                return PropsConv()
        _HC['Props'] = Props
        _HC['Point'] = type('Point', (pane.PaneBase,), {'__annotations__': {'x': int, 'kind': t.Literal['point']}, 'kind': 'point'})
    (Props, Point) = (_HC['Props'], _HC['Point'])
    ext: t.Any = {'internal': False, 'external': True, 'adjacent': ('t', 'c')}[lay]
    U = t.Annotated[t.Union[Props, Point], Tagged('kind', external=ext)]
    held = {'OrderedDict': collections.OrderedDict, 'dict': dict, 'MyMap': codec.MyMap}[mk]([('colour', 'red'), ('width', 2)])
    x = Props(held)
    if where == 'bare':
        (T, v) = (U, x)
    elif where == 'List':
        (T, v) = (t.List[U], [x])
    elif where == 'Optional':
        (T, v) = (t.Optional[U], x)
    else:
        key = ('H', lay)
        if key not in _HC:
            _HC[key] = type('HcHolder', (pane.PaneBase,), {'__annotations__': {'p': U}})
        (T, v) = (_HC[key], _HC[key].make_unchecked(p=x))
    ctx.label(f"layout:{lay}", where, mk)
    ctx.nontrivial(True)
    before = (type(held).__name__, list(held.items()))
    ctx.evaluated()
    (k, d) = outcome(lambda: pane.into_data(v, T))
    after = (type(x.d).__name__, list(x.d.items()))
    if x.d is not held or after != before:
        ctx.fail('input-unchanged', f"into_data/variant-converter:{lay}", f"a variant whose own converter writes the mapping it holds ({mk} {dict(before[1])}), {lay}ly tagged, {where}: "
                 f"after into_data ({k}) the value holds {after[0]} {dict(after[1])}")


# ---- construction from a caller's dict, with a __post_init__ that fills in a derived field -----------------------------------------

def derived_cases(shard: int, nshards: int) -> t.Iterator[t.Any]:
    i = 0
    for frozen in (True, False):
        for path in ('from_dict_unchecked', 'from_data', 'make_unchecked(**d)', 'Cls(**d)', 'copy'):
            for kind in ('dict', 'OrderedDict', 'MyMap'):
                if i % nshards == shard:
                    yield [frozen, path, kind]
                i += 1


def check_derived(case: t.Any, ctx: Ctx) -> None:
    import pane
    (frozen, path, kind) = case
    key = ('Circle', frozen)
    if key not in _HC:
        def post(self: t.Any) -> None:
            object.__setattr__(self, 'area', 3 * self.r * self.r)       # a derived field, filled in by the class
        _HC[key] = type('Circle', (pane.PaneBase,), {'__annotations__': {'r': float, 'area': float}, 'area': pane.field(init=False, exclude=True, default=0.0),
                                                     '__post_init__': post}, frozen=frozen)
    Cls = _HC[key]
    d = {'dict': dict, 'OrderedDict': collections.OrderedDict, 'MyMap': codec.MyMap}[kind]([('r', 2.0)])
    if kind == 'MyMap' and path in ('from_dict_unchecked',):
        return      # (documented to take a dict)
    before = (type(d).__name__, list(d.items()))
    ctx.label(path, kind, 'frozen' if frozen else 'mutable')
    ctx.nontrivial(True)
    ctx.evaluated()
    (k, x) = outcome({'from_dict_unchecked': lambda: Cls.from_dict_unchecked(d), 'from_data': lambda: Cls.from_data(d), 'make_unchecked(**d)': lambda: Cls.make_unchecked(**d),
                      'Cls(**d)': lambda: Cls(**d), 'copy': lambda: copy.copy(Cls.from_dict_unchecked(d))}[path])
    if k == 'ok' and not frozen:
        x.r = 5.0                   # what the caller does with the instance afterwards is the instance's business
    after = (type(d).__name__, list(d.items()))
    if after != before:
        ctx.fail('input-unchanged', f"{path}/derived-field", f"class Circle(r: float; area filled in by __post_init__), {'frozen' if frozen else 'not frozen'}: after {path} on "
                 f"{before[0]} {dict(before[1])} ({k}){'' if frozen else ' and an assignment to the instance'} the caller's mapping is {dict(after[1])}")


# ---- an instance handed in as (part of) the value --------------------------------------------------------------------------------
#
# "modifies the value passed in, at any depth": a dataclass instance inside the data is a value passed in like any other.  A converter
# takes it as already converted - and leaves it alone, frozen or not, whatever was assigned to its fields since it was made.

INST_CALLS = ['from_data(List)', 'from_data(Dict)', 'from_data(bare)', 'convert', 'into_data(bare)', 'into_data(union field)', 'Outer(item=inst)',
              'from_data(tagged)', 'failing from_data(Tuple)']


def inst_cases(shard: int, nshards: int) -> t.Iterator[t.Any]:
    i = 0
    for frozen in (True, False):
        for assigned in (False, True):
            for ci in range(len(INST_CALLS)):
                if i % nshards == shard:
                    yield [frozen, assigned, ci]
                i += 1


def check_instances(case: t.Any, ctx: Ctx) -> None:
    import pane
    from pane.annotations import Tagged
    (frozen, assigned, ci) = case
    key = ('Item', frozen)
    if key not in _HC:
        Item = type('Item', (pane.PaneBase,), {'__annotations__': {'x': float, 'y': float, 'pts': t.List[float], 'kind': t.Literal['item']},
                                               'kind': 'item', 'y': 2.0, 'pts': pane.field(default_factory=list)}, frozen=frozen)
        Other = type('Other', (pane.PaneBase,), {'__annotations__': {'kind': t.Literal['other']}, 'kind': 'other'}, frozen=frozen)
        Box = type('Box', (pane.PaneBase,), {'__annotations__': {'item': t.Union[Item, int]}})
        _HC[key] = (Item, Other, Box)
    (Item, Other, Box) = _HC[key]
    inst = Item(x=1.5, pts=[1.0, 2.0])
    if assigned:
        if frozen:
            return      # (nothing can be assigned)
        inst.pts = (1, 2)       # assignment does not convert: the field holds what the caller put there
        inst.x = 1
    call = INST_CALLS[ci]
    ctx.label(call, 'frozen' if frozen else 'mutable', 'assigned-since' if assigned else 'as-made')
    ctx.nontrivial(not frozen)

    def snap() -> t.Any:
        return (repr(inst), [(n, type(getattr(inst, n)).__name__, id(getattr(inst, n))) for n in ('kind', 'x', 'y', 'pts')],
                [(type(e).__name__, e) for e in inst.pts], sorted(inst.dict(set_only=True)))
    before = snap()
    TU = t.Annotated[t.Union[Item, Other], Tagged('kind')]
    f = {
        'from_data(List)': lambda: pane.from_data([inst], t.List[Item]),
        'from_data(Dict)': lambda: pane.from_data({'k': inst}, t.Dict[str, Item]),
        'from_data(bare)': lambda: pane.from_data(inst, Item),
        'convert': lambda: pane.convert(inst, Item),
        'into_data(bare)': lambda: pane.into_data(inst, Item),
        'into_data(union field)': lambda: pane.into_data(Box.make_unchecked(item=inst)),
        'Outer(item=inst)': lambda: Box(item=inst),
        'from_data(tagged)': lambda: pane.from_data([inst], t.List[TU]),
        'failing from_data(Tuple)': lambda: pane.from_data([inst, 'not an int'], t.Tuple[Item, int]),
    }[call]
    ctx.evaluated()
    (k, r) = outcome(f)
    after = snap()
    if after != before:
        ctx.fail('input-unchanged', f"instance-in-data/{call}", f"class Item(x: float, y: float = 2.0, pts: List[float], kind: Literal['item']), {'frozen' if frozen else 'not frozen'}, "
                 f"{'fields assigned since' if assigned else 'as constructed'}: after {call} ({k}) the instance went from {before} to {after}")


def _inserting() -> t.Any:
    # mapping-shaped targets (struct literals, Dict / Mapping, dataclasses) first, then the whole grammar
    sc = tg.type_specs(2)
    keys = st.sampled_from(['a', 'b', 'c', 'x', 'y'])
    structs = st.lists(st.tuples(keys, sc), min_size=1, max_size=3, unique_by=lambda kv: kv[0]).map(lambda kv: ('struct', tuple(kv)))
    shaped = st.one_of(structs, structs.map(lambda s: ('seq', 'List', s)), structs.map(lambda s: ('map', 'Dict', ('s', 'str'), s)),
                       cg.class_specs(st.one_of(sc, structs), max_fields=3))
    return gen.inserting_cases(st.one_of(shaped, shaped, gen.all_type_specs(4)))


def _tagged() -> t.Any:
    from .c12 import tagged_cases
    return tagged_cases()


def suites(tier: str) -> t.List[Suite]:
    big = tier == 'thorough'
    leaves = 8 if big else 4
    return [
        Suite('nomutate', check, strategy=lambda: gen.conv_cases(gen.all_type_specs(leaves)), examples=8000 if big else 600,
              budget_s=480 if big else 40, render=gen.render_case),
        Suite('inserting-maps', check, strategy=_inserting, examples=4000 if big else 300, budget_s=200 if big else 20, render=gen.render_case),
        Suite('derived-field', check_derived, cases=derived_cases, exhaustive=True, budget_s=30, render=lambda c: {'frozen': c[0], 'path': c[1], 'mapping': c[2]}),
        Suite('instances-in-data', check_instances, cases=inst_cases, exhaustive=True, budget_s=30,
              render=lambda c: {'frozen': c[0], 'fields assigned after construction': c[1], 'call': INST_CALLS[c[2]]}),
        Suite('variant-converter', check_hasconv, cases=hasconv_cases, exhaustive=True, budget_s=30, render=lambda c: {'layout': c[0], 'where': c[1], 'mapping': c[2]}),
        Suite('tagged', check, strategy=_tagged, examples=3000 if big else 250, budget_s=240 if big else 25, render=gen.render_case),
    ]
