"""
C12  Tagged unions dispatch on the tag alone; layouts are symmetric.

Generated: 2-4 variant dataclasses with Literal tag fields (str or int tags) and
overlapping bodies, so that several variants accept the same body; the three
layouts; values valid and mutated (unknown tag, absent tag, tag of another kind,
extra keys, wrong body, wrong number of keys for the external / adjacent
layouts, non-mapping values).  Oracle: a reference implementation of
docs/using/tagged.md (pv/cg.py TaggedNode).
"""

from __future__ import annotations

import typing as t

from hypothesis import strategies as st

from ..core import Suite, Ctx
from .. import tg, cg, gen
from ..same import same, SKIP_EXCLUDED
from ..codec import short, MyMap
from ..oracles import outcome
from ..errtree import own_tree, tree_eq

ID = 'C12'
RULE = ("Hypothesis: 2-4 variants (tag field Literal of str / int, default = tag), shared body field names with equal or different types "
        "(so a body is often acceptable to several variants), optional tuple layout for variants, optional class rename on a variant; layout in "
        "{internal, external, adjacent}; values: valid, and mutated tags (unknown, absent, list, dict, None, float, bool), bodies, key counts, "
        "non-mappings. Non-trivial = the body is accepted by more than one variant, or the tag is of an unexpected kind; distinct by case.")
ASSUMPTIONS = [
    "a tag that is == to a declared tag but of another type (True vs 1) is unspecified",
    "'tag attribute missing from a member' is outside this check (either AttributeError or TypeError is accepted, see C04)",
]

BODY_TYPES = [('s', 'int'), ('s', 'float'), ('s', 'str'), ('seq', 'List', ('s', 'int')), ('union', 'Optional', (('s', 'int'),)), ('s', 'any')]


@st.composite
def tagged_cases(draw) -> t.Any:
    tag = draw(st.sampled_from(['tag', 'kind', 'x']))
    tagkind = draw(st.sampled_from(['str', 'int']))
    vals = ['alpha', 'beta', 'gamma', 'delta'] if tagkind == 'str' else [1, 2, 3, 4]
    nvar = draw(st.integers(2, 4))
    lay = draw(st.sampled_from(['internal', 'external', 'adjacent']))
    layout: t.Any = lay if lay != 'adjacent' else ['adjacent', draw(st.sampled_from(['t', 'type'])), draw(st.sampled_from(['c', 'content']))]
    body_names = [n for n in ['y', 'val', 'zed'] if n != tag]
    variants = []
    for i in range(nvar):
        fields: t.List[t.Dict[str, t.Any]] = [{'name': tag, 'type': ('lit', (vals[i],)), 'default': ['value', vals[i]]}]
        if draw(st.integers(0, 5)) == 5:
            fields[0]['exclude'] = True     # the tag is not part of the variant's own output: for the internal layout the union has to write it
        for n in body_names:
            if draw(st.integers(0, 3)) == 3:
                continue
            ty = draw(st.sampled_from(BODY_TYPES))
            nd = tg.node(ty)
            fs: t.Dict[str, t.Any] = {'name': n, 'type': ty}
            if draw(st.booleans()):
                fs['default'] = ['factory', tg.plainify(draw(nd.valid().filter(lambda v: isinstance(nd.ref(v), tg.Acc))))]
            else:
                fs['kw_only'] = True
            fields.append(fs)
        opts: t.Dict[str, t.Any] = {}
        if lay != 'internal' and all('default' in f for f in fields) and draw(st.integers(0, 3)) == 3:
            opts['in_format'] = ['struct', 'tuple']
        if draw(st.integers(0, 7)) == 7:
            opts['rename'] = draw(st.sampled_from(['pascal', 'scream', 'camel']))
        if draw(st.integers(0, 5)) == 5:
            opts['allow_extra'] = True
        variants.append({'name': f"Var{i}", 'fields': fields, 'opts': opts})
    if nvar < 4 and draw(st.integers(0, 3)) == 3:
        # a variant that subclasses the first one (base listed first): the tag, not the class hierarchy, decides also on output
        variants.append(cg.derived_variant(variants[0], 0, tag, vals[nvar]))
    conds = draw(st.sampled_from([(), (), (('true',),), (('true',), ('true',))]))     # Annotated[Union, Tagged(...), Condition...]
    spec = ('tagged', layout, tag, tuple(variants), conds)
    nd = cg.TaggedNode(spec)
    v = draw(nd.valid())
    mode = draw(st.sampled_from(['valid', 'badtag', 'valid', 'mutate', 'shape', 'cross-body', 'inserting-mapping']))
    if mode == 'inserting-mapping' and isinstance(v, dict):
        # a defaultdict (its __getitem__ inserts missing keys), often with one expected key renamed away
        import collections
        items = list(v.items())
        if items and draw(st.booleans()):
            j = draw(st.integers(0, len(items) - 1))
            items[j] = (draw(st.sampled_from(['other', 'zz'])), items[j][1])
        v = collections.defaultdict(draw(st.sampled_from([list, int, dict])), items)
        return [spec, v, mode]
    if mode == 'badtag' and isinstance(v, dict):
        bad = draw(st.sampled_from(['omega', 99, None, 1.5, True, [1], {'a': 1}, '', 0, (1,), b'alpha']))
        sp = nd.split(v)
        if not isinstance(sp, tg.Rej):
            if draw(st.integers(0, 3)) == 3 and lay != 'external':
                v = {k: x for (k, x) in v.items() if k != (tag if lay == 'internal' else layout[1])}   # absent tag
            else:
                try:
                    v = nd.wrap(bad, sp[1])
                except TypeError:
                    v = nd.wrap('omega', sp[1])
    elif mode == 'mutate':
        v = gen.mutate(draw, v, nd.names())
    elif mode == 'shape':
        v = draw(st.sampled_from([[], 'alpha', None, 5, {}, [['tag', 'alpha']], MyMap(v.items()) if isinstance(v, dict) else {},
                                  {**v, 'extra_key': 1} if isinstance(v, dict) else {}]))
    elif mode == 'cross-body':
        # body built for one variant, tag of another
        j = draw(st.integers(0, nvar - 1))
        sp = nd.split(v)
        if not isinstance(sp, tg.Rej):
            v = nd.wrap(nd.tagvals[j], sp[1])
    if draw(st.booleans()):
        v = gen.reshape_all(draw, v)
    return [spec, v, mode]


def render(case: t.Any) -> t.Any:
    nd = cg.TaggedNode(case[0])
    return {'type': nd.render(), 'variants': [v.render() for v in nd.variants], 'value': short(case[1], 200), 'mode': case[2]}


def renamed_tag(nd: cg.TaggedNode) -> bool:
    """Known finding D21: a variant writes its tag field under another name than the tag attribute."""
    for v in nd.variants:
        f = next(x for x in v.fields if x.name == nd.tag)
        if f.out_name != nd.tag or nd.tag not in f.in_names:
            return True
    return False


def check(case: t.Any, ctx: Ctx) -> None:
    import pane
    (spec, v, mode) = case
    nd = cg.TaggedNode(spec)
    T = nd.pytype()
    lay = nd.layout if isinstance(nd.layout, str) else 'adjacent'
    ident = f"T = {nd.render()}; variants: {' | '.join(x.render().replace(chr(10), ' ') for x in nd.variants)[:700]}; v = {short(v, 200)}"
    r = nd.ref(v)
    sp = nd.split(v)
    n_accepting = 0
    tag_odd = False
    if not isinstance(sp, tg.Rej):
        n_accepting = sum(isinstance(x.ref(sp[1]), tg.Acc) for x in nd.variants)
        tag_odd = not isinstance(sp[0], (str, int)) or isinstance(sp[0], bool)
    ctx.label(f"layout:{lay}", f"mode:{mode}", type(r).__name__)
    ctx.nontrivial(n_accepting >= 2 or tag_odd)
    (k, got) = outcome(lambda: pane.from_data(v, T))
    ctx.evaluated()
    if k == 'exc':
        ctx.fail('tag-dispatch', f"exception:{type(got).__name__}", f"{ident}; raised {type(got).__name__}: {str(got)[:200]}")
        return
    if isinstance(r, tg.Unspec):
        ctx.exclude(r.why)
        return
    if isinstance(r, tg.Acc):
        if k != 'ok':
            ctx.fail('tag-dispatch', 'refused', f"{ident}; the tag selects {r.image.cls.name} and its body is acceptable, but: {str(got)[:300]}")
            return
        d = same(got, r.image)
        if d is not None:
            ctx.fail('tag-dispatch', 'wrong-variant', f"{ident}; expected an instance of {r.image.cls.name} (the variant whose tag equals the data's tag), got {short(got, 120)}: {d}")
            return
    else:
        if k == 'ok':
            ctx.fail('tag-dispatch', 'accepted', f"{ident}; must be refused ({r.why}) but gave {short(got, 120)}")
            return
        text = str(got)
        if not isinstance(sp, tg.Rej):
            sel = nd.select(sp[0])
            if isinstance(sel, int):
                # body error: exactly the selected variant's own tree for the body
                ctx.evaluated()
                s = own_tree(nd.variants[sel], sp[1])
                d = tree_eq(got.tree, s)
                if d is not None:
                    ctx.fail('body-error-of-selected-variant', lay, f"{ident}; the error is not variant {nd.variants[sel].name}'s own error for the body: {d}")
                    return
            elif isinstance(sel, tg.Rej):
                # unknown / ill-kinded tag: the message names the tag
                names = [nd.tag] if lay != 'external' else [nd.tag, *[repr(x) for x in nd.tagvals]]
                if not any(n in text for n in names):
                    ctx.fail('bad-tag-named', lay, f"{ident}; the message does not name the tag: {text[:200]}")
                    return
        elif tg.is_map(v) and sp.why == 'no tag key':
            if nd.tag not in text:
                ctx.fail('bad-tag-named', 'absent', f"{ident}; tag key absent but the message does not name the tag: {text[:200]}")
                return
        return

    # ---- serialisation writes exactly the layout that parsing reads -----------------------------------------
    pv_ = tg.plainify(v)      # plain containers, so that Any-typed body fields are exactly representable
    (kx, x) = outcome(lambda: pane.from_data(pv_, T))
    if kx != 'ok':
        return
    if any(not vn.output_readable() for vn in nd.variants):
        ctx.exclude('a variant output form is not enabled on input')
        return
    (k, d) = outcome(lambda: pane.into_data(x, T))
    ctx.evaluated()
    klass = f"{lay}:renamed-tag" if renamed_tag(nd) else lay
    if k != 'ok':
        ctx.fail('layout-symmetric', f"{klass}:into_data-{type(d).__name__}", f"{ident}; x = {short(x, 100)}; into_data raised {type(d).__name__}: {str(d)[:200]}")
        return
    tagval = getattr(x, nd.tag)
    shape_ok = isinstance(d, dict) and (
        (lay == 'internal') or
        (lay == 'external' and list(d) == [tagval]) or
        (lay == 'adjacent' and set(d) == set(nd.layout[1:]) and d[nd.layout[1]] == tagval))
    if not shape_ok:
        ctx.fail('layout-symmetric', f"{klass}:shape", f"{ident}; x = {short(x, 100)}; into_data gives {short(d, 150)}, which is not the {lay} layout")
        return
    (k, y) = outcome(lambda: pane.from_data(d, T))
    if k != 'ok':
        ctx.fail('layout-symmetric', f"{klass}:reparse", f"{ident}; x = {short(x, 100)}; its own serialised form {short(d, 150)} is refused: {str(y)[:200]}")
        return
    SKIP_EXCLUDED[0] = True
    try:
        diff = same(y, x)
    finally:
        SKIP_EXCLUDED[0] = False
    if diff is not None:
        ctx.fail('layout-symmetric', f"{klass}:reparse-equal", f"{ident}; x = {short(x, 100)} -> {short(d, 120)} -> {short(y, 100)}: {diff}")


# ---- duplicate tag values are refused when the type is built --------------------------------------------------

def dup_cases(shard: int, nshards: int) -> t.Iterator[t.Any]:
    i = 0
    for lay in ('internal', 'external', ['adjacent', 't', 'c']):
        for vals in (['a', 'a'], [1, 1], ['a', 'b', 'a'], [1, 2, 2], ['a', 'b'], 'inherited-tag-overridden-without-annotation', 'inherited-tag-overridden-with-annotation', 'dict-subclass-variants'):
            if i % nshards == shard:
                yield [lay, vals]
            i += 1


def check_dup(case: t.Any, ctx: Ctx) -> None:
    from pane.convert import make_converter
    (lay, vals) = case
    if vals == 'dict-subclass-variants':
        # variants that are mapping types themselves (dict subclasses carrying the tag as a class attribute, as in pane's own tests):
        # an instance held in a field of type Optional[union] is written in the union's layout and read back as the same variant
        import pane
        from pane.annotations import Tagged
        Circle = type('Circle', (dict,), {'kind': 'circle'})
        Square = type('Square', (dict,), {'kind': 'square'})
        ext = {'internal': False, 'external': True}.get(lay if isinstance(lay, str) else '', tuple(lay[1:]) if not isinstance(lay, str) else False)
        TU = t.Annotated[t.Union[Circle, Square], Tagged('kind', external=ext)]
        Drawing = type('Drawing', (pane.PaneBase,), {'__annotations__': {'name': str, 'shape': t.Optional[TU], 'more': t.List[TU]}})
        ctx.label('dict-subclass-variants')
        ctx.nontrivial(True)
        x = Drawing.make_unchecked(name='d', shape=Circle({'r': 2}), more=[Square({'s': 1})])
        ctx.evaluated()
        (k, d) = outcome(lambda: pane.into_data(x, Drawing))
        (k2, y) = outcome(lambda: pane.from_data(d, Drawing)) if k == 'ok' else ('-', None)
        if k != 'ok' or k2 != 'ok' or type(y.shape) is not Circle or dict(y.shape) != {'r': 2} or type(y.more[0]) is not Square:
            ctx.fail('layouts-symmetric', 'dict-subclass-variant', f"variants Circle(dict) / Square(dict) with class attribute kind, layout {lay}: Drawing(shape=Circle({{'r': 2}}), more=[Square({{'s': 1}})]) "
                     f"written as {short(d, 120)} ({k}), read back as {short(y, 120)} ({k2})")
        (k3, z) = outcome(lambda: make_converter(TU).convert(Circle({'r': 3})))
        if k3 != 'ok' or type(z) is not Circle:
            ctx.fail('tag-dispatch', 'dict-subclass-variant:instance', f"layout {lay}: a Circle instance given to the union's converter: {k3} {short(z, 100)}")
        return
    if isinstance(vals, str):
        # variants that inherit the tag field from a common base and override it in their body: the tag a variant *declares* is the
        # tag its instances *carry*; if two variants carry the same tag the union is refused, otherwise data is dispatched by it
        import pane
        from pane.annotations import Tagged
        ann = vals.endswith('with-annotation')
        Shape = type('Shape', (pane.PaneBase,), {'__annotations__': {'kind': str, 'label': str}, 'kind': 'shape', 'label': ''}, kw_only=True)
        Circle = type('Circle', (Shape,), {'__annotations__': {'r': float, **({'kind': str} if ann else {})}, 'kind': 'circle'})
        Square = type('Square', (Shape,), {'__annotations__': {'s': float, **({'kind': str} if ann else {})}, 'kind': 'square'})
        ext = {'internal': False, 'external': True}.get(lay if isinstance(lay, str) else '', tuple(lay[1:]) if not isinstance(lay, str) else False)
        T = t.Annotated[t.Union[Circle, Square], Tagged('kind', external=ext)]
        carried = [Circle(r=1.0).kind, Square(s=1.0).kind]
        ctx.label(f"inherited-tag:{'annotated' if ann else 'bare'}")
        ctx.nontrivial(True)
        (k, conv) = outcome(lambda: make_converter(T))
        if len(set(carried)) < 2:
            if k == 'ok' or not isinstance(conv, TypeError):
                ctx.fail('duplicate-tags-refused', 'inherited-tag', f"Circle and Square (tag field inherited from Shape, overridden {'with' if ann else 'without'} an annotation) "
                         f"both carry the tag {carried[0]!r}, but building the union {'succeeded' if k == 'ok' else 'raised ' + type(conv).__name__}")
            return
        if k != 'ok':
            ctx.fail('duplicate-tags-refused', 'distinct-refused', f"variants carrying distinct tags {carried} refused: {conv}")
            return
        x = Square(s=2.0)
        (k2, d) = outcome(lambda: conv.into_data(x))
        (k3, y) = outcome(lambda: conv.convert(d)) if k2 == 'ok' else ('-', None)
        if k2 != 'ok' or k3 != 'ok' or type(y) is not Square or y.kind != x.kind:
            ctx.fail('tag-dispatch', 'inherited-tag', f"Square(s=2.0) (carrying tag {x.kind!r}) written as {short(d, 80)} ({k2}), read back as {short(y, 80)} ({k3})")
        return
    variants = [{'name': f"Dup{i}", 'fields': [{'name': 'tag', 'type': ('lit', (v,)), 'default': ['value', v]}], 'opts': {}} for (i, v) in enumerate(vals)]
    nd = cg.TaggedNode(('tagged', lay, 'tag', tuple(variants)))
    dup = len(set(vals)) != len(vals)
    ctx.label(f"duplicates:{dup}")
    ctx.nontrivial(True)
    (k, r) = outcome(lambda: make_converter(nd.pytype()))
    if dup and (k == 'ok' or not isinstance(r, TypeError)):
        ctx.fail('duplicate-tags-refused', str(lay)[:8], f"tags {vals} in layout {lay}: building the converter {'succeeded' if k == 'ok' else 'raised ' + type(r).__name__} instead of TypeError")
    if not dup and k != 'ok':
        ctx.fail('duplicate-tags-refused', 'distinct-refused', f"distinct tags {vals} refused: {r}")


# ---- the declared tags are the tags, whatever instances have been written ---------------------------------------------------------
#
# A variant whose tag field admits more than its declared tag (kind: Literal['circle', 'Circle'] = 'circle', or a plain str) can hold
# an undeclared tag in an instance.  Whatever serialising such an instance does, data carrying the undeclared tag is refused -
# before and after - with an error that names the tag: "chosen by the tag value alone", by the tags the type declares.

def undeclared_cases(shard: int, nshards: int) -> t.Iterator[t.Any]:
    i = 0
    for layout in ('internal', 'external', 'adjacent'):
        for field_kind in ('literal-of-two', 'plain-str'):
            for where in ('bare', 'List'):
                if i % nshards == shard:
                    yield [layout, field_kind, where]
                i += 1


def check_undeclared(case: t.Any, ctx: Ctx) -> None:
    import pane
    from pane.annotations import Tagged
    (layout, field_kind, where) = case
    KT = t.Literal['circle', 'Circle'] if field_kind == 'literal-of-two' else str
    Circle = type('Circle', (pane.PaneBase,), {'__annotations__': {'kind': KT, 'r': float}, 'kind': 'circle', 'r': 1.0})
    Square = type('Square', (pane.PaneBase,), {'__annotations__': {'kind': t.Literal['square'], 's': float}, 'kind': 'square', 's': 1.0})
    ext = {'internal': False, 'external': True, 'adjacent': ('t', 'c')}[layout]
    ctx.label(f"undeclared-tag:{layout}", field_kind, where)
    ctx.nontrivial(True)
    try:
        U = t.Annotated[t.Union[Circle, Square], Tagged('kind', ext)]
        ok_data = {'internal': {'kind': 'circle', 'r': 2.0}, 'external': {'circle': {'r': 2.0}}, 'adjacent': {'t': 'circle', 'c': {'r': 2.0}}}[layout]
        first = pane.from_data(ok_data, U)
    except Exception:
        return      # (such a tag field is not taken as a tag at all: nothing to check)
    if not isinstance(first, Circle):
        return
    bad_data = {'internal': {'kind': 'Circle', 'r': 2.0}, 'external': {'Circle': {'r': 2.0}}, 'adjacent': {'t': 'Circle', 'c': {'r': 2.0}}}[layout]
    (T, bad, good) = (U, bad_data, ok_data) if where == 'bare' else (t.List[U], [bad_data], [ok_data])
    ctx.evaluated(2)
    before = outcome(lambda: pane.from_data(bad, T))
    inst = Circle.make_unchecked(kind='Circle', r=3.0)
    written = outcome(lambda: pane.into_data(inst if where == 'bare' else [inst], T))
    after = outcome(lambda: pane.from_data(bad, T))
    ident = f"Union[Circle(kind: {field_kind} = 'circle'), Square] tagged {layout} ({where}); data {bad!r}"
    for (when, o) in (('before', before), ('after into_data of an instance holding the tag', after)):
        if o[0] != 'ce':
            ctx.fail('bad-tag-named', f"undeclared-tag-accepted:{when.split(' ')[0]}", f"{ident}: {when}: {o[0]} {short(o[1], 120)} (into_data gave {written[0]} {short(written[1], 80)}); "
                     "'Circle' is not a declared tag")
            return
    if str(before[1]) != str(after[1]):
        ctx.fail('bad-tag-named', 'undeclared-tag-message-changed', f"{ident}: refusal before: {str(before[1])[:200]!r}; after into_data of an instance holding the tag: {str(after[1])[:200]!r}")


def suites(tier: str) -> t.List[Suite]:
    big = tier == 'thorough'
    return [
        Suite('tagged', check, strategy=tagged_cases, examples=8000 if big else 600, budget_s=480 if big else 40, render=render),
        Suite('undeclared-tag-instance', check_undeclared, cases=undeclared_cases, exhaustive=True, budget_s=30, render=lambda c: {'layout': c[0], 'tag field': c[1], 'where': c[2]}),
        Suite('duplicates', check_dup, cases=dup_cases, budget_s=60),
    ]
