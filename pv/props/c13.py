"""
C13  Conditions restrict exactly by their predicate.

A condition-expression grammar (stock conditions with generated thresholds,
& | ~, Condition.all / any, one to three conditions on one annotation, user
predicates including raising ones) over inner types int, float, str, List,
Tuple, Set, Dict, numpy arrays and nested element types; values at each
threshold, one step either side (+-1, math.nextafter), at 0, -0.0, inf, empty
and singleton collections; shapes drawn around the target shape.  Oracle: the
expression evaluated by an independent evaluator (plain comparisons; a 6-line
reference broadcasting rule).
"""

from __future__ import annotations

import math
import typing as t

from hypothesis import strategies as st

from ..core import Suite, Ctx
from .. import tg
from ..same import same
from ..codec import short
from ..oracles import outcome
from .c05 import canon

ID = 'C13'
RULE = ("Hypothesis: condition expression (depth <= 3) x inner type x boundary-directed value. Accept iff the inner type accepts and the "
        "independent evaluator says the predicate holds on the converted value; the result equals the inner type's result; a raising "
        "predicate gives ConvertError with a cause; into_data ignores conditions. Non-trivial = the value lies on or next to a threshold "
        "of the expression, or the expression has depth >= 2; distinct by (expression, inner type, value).")
ASSUMPTIONS = [
    "boundaries are inclusive for val_range / len_range, strict for Positive / Negative, as documented in pane/annotations.py docstrings",
    "conditions are only applied to inner types on which their predicate is defined (numeric for ranges, sized for lengths, arrays for shapes); others would raise, i.e. reject",
]

NUM_LEAF = st.one_of(
    st.sampled_from([('Positive',), ('Negative',), ('NonPositive',), ('NonNegative',), ('Finite',), ('even',)]),
    st.tuples(st.just('val_range'), st.one_of(st.none(), st.integers(-3, 3), st.sampled_from([0.5, -1.5])), st.one_of(st.none(), st.integers(-1, 6), st.sampled_from([2.5]))),
    st.tuples(st.just('user_gt'), st.integers(-2, 3)),
    st.tuples(st.just('partial_gt'), st.integers(-2, 3)),
    st.tuples(st.just('raises_if'), st.integers(-1, 2)),
)
LEN_LEAF = st.one_of(
    st.sampled_from([('Empty',), ('NonEmpty',)]),
    st.tuples(st.just('len_range'), st.one_of(st.none(), st.integers(0, 3)), st.one_of(st.none(), st.integers(0, 4))),
)
SHAPE_LEAF = st.one_of(
    st.tuples(st.just('shape'), st.lists(st.integers(0, 3), max_size=2).map(tuple), st.sampled_from(['tuple', 'list'])),
    st.tuples(st.just('bcast'), st.lists(st.integers(1, 3), max_size=3).map(tuple)),
)


def cond_exprs(leaf: st.SearchStrategy[t.Any]) -> st.SearchStrategy[t.Any]:
    return st.recursive(
        leaf,
        lambda ch: st.one_of(
            st.tuples(st.just('and'), ch, ch), st.tuples(st.just('or'), ch, ch), st.tuples(st.just('not'), ch),
            st.tuples(st.just('all'), st.lists(ch, min_size=1, max_size=3).map(tuple)),
            st.tuples(st.just('any'), st.lists(ch, min_size=1, max_size=3).map(tuple)),
        ),
        max_leaves=4,
    )


def depth(c: t.Any) -> int:
    k = c[0]
    if k in ('and', 'or'):
        return 1 + max(depth(c[1]), depth(c[2]))
    if k == 'not':
        return 1 + depth(c[1])
    if k in ('all', 'any'):
        return 1 + max(depth(x) for x in c[1])
    return 1


def thresholds(c: t.Any) -> t.List[t.Any]:
    k = c[0]
    if k in ('and', 'or'):
        return thresholds(c[1]) + thresholds(c[2])
    if k == 'not':
        return thresholds(c[1])
    if k in ('all', 'any'):
        return [x for y in c[1] for x in thresholds(y)]
    if k in ('val_range', 'len_range'):
        return [x for x in c[1:3] if x is not None]
    if k in ('user_gt', 'raises_if', 'partial_gt'):
        return [c[1]]
    if k in ('Positive', 'Negative', 'NonPositive', 'NonNegative', 'Empty', 'NonEmpty'):
        return [0]
    return []


NUM_INNER = [('s', 'int'), ('s', 'float'), ('sub', 'int')]
LEN_INNER = [('s', 'str'), ('seq', 'List', ('s', 'int')), ('seq', 'TupleVar', ('s', 'int')), ('seq', 'Set', ('s', 'int')),
             ('map', 'Dict', ('s', 'str'), ('s', 'int')), ('s', 'bytes'), ('seq', 'list_bare'),
             # PEP 585 spellings: builtin aliases are new objects every time they are written (typing's are cached)
             ('seq', 'list', ('s', 'int')), ('seq', 'set', ('s', 'int')), ('seq', 'tuplevar', ('s', 'int')), ('map', 'dict', ('s', 'str'), ('s', 'int'))]
ARR_INNER = [('nd', None), ('nd', 'int64'), ('nd', 'float64')]


def twin_pairs(a: t.Any, b: t.Any, c: t.Any) -> t.List[t.Tuple[t.Any, t.Any]]:
    """Pairs of expressions that read alike when flattened ("not a and b", "a or b and c") but are different Boolean functions."""
    return [
        (('not', ('and', a, b)), ('and', ('not', a), b)),
        (('not', ('or', a, b)), ('or', ('not', a), b)),
        (('and', ('or', a, b), c), ('or', a, ('and', b, c))),
        (('or', ('and', a, b), c), ('and', a, ('or', b, c))),
        (('all', (('or', a, b), c)), ('any', (a, ('and', b, c)))),
    ]


@st.composite
def cases(draw) -> t.Any:
    fam = draw(st.sampled_from(['num', 'num', 'len', 'shape', 'nested', 'twins']))
    if fam == 'twins':
        # two annotated positions of one type (and so of one process, one typing cache, one converter cache) whose condition
        # expressions differ only in how they nest: each position enforces its own predicate
        (a, b, c) = (draw(NUM_LEAF), draw(NUM_LEAF), draw(NUM_LEAF))
        (c1, c2) = draw(st.sampled_from(twin_pairs(a, b, c)))
        if draw(st.booleans()):
            (c1, c2) = (c2, c1)
        inner = draw(st.sampled_from([('s', 'float'), ('s', 'int')]))
        ths = thresholds(c1) + [0]
        cands: t.List[t.Any] = [x + dlt for x in ths for dlt in (-1, 0, 1)] + [0, 1, -1, 2, -2]
        if inner == ('s', 'float'):
            cands = [float(x) for x in cands] + [float('inf'), float('-inf'), 0.5, -0.5]
        else:
            cands = [math.floor(x) for x in cands]
        (v1, v2) = (draw(st.sampled_from(cands)), draw(st.sampled_from(cands)))
        if draw(st.integers(0, 3)) == 0:
            v2 = v1
        shape = draw(st.sampled_from(['tuple', 'struct', 'union-list']))
        (A1, A2) = (('ann', inner, (c1,)), ('ann', inner, (c2,)))
        if shape == 'tuple':
            return [('tup', 'Tuple', (A1, A2)), [v1, v2], v1]
        if shape == 'struct':
            return [('struct', (('p', A1), ('q', A2))), {'p': v1, 'q': v2}, v1]
        return [('tup', 'Tuple', (('seq', 'List', A1), ('seq', 'List', A2))), [[v1, v2], [v2, v1]], v1]
    nconds = draw(st.integers(1, 3))
    if fam in ('num', 'nested'):
        conds = [draw(cond_exprs(NUM_LEAF)) for _ in range(nconds)]
        inner = draw(st.sampled_from(NUM_INNER))
        ths = [x for c in conds for x in thresholds(c)] + [0]
        th = draw(st.sampled_from(ths))
        is_float = inner == ('s', 'float')
        cands: t.List[t.Any] = [th, th + 1, th - 1, 0, 1, -1]
        if is_float:
            cands += [math.nextafter(float(th), math.inf), math.nextafter(float(th), -math.inf), -0.0, 0.0, float('inf'), float('-inf'), float('nan'), float(th)]
        else:
            cands = [int(x) if float(x).is_integer() else math.floor(x) for x in cands] + [math.ceil(th), 10**400, -10**400]   # (finite, but beyond float)
        v: t.Any = draw(st.sampled_from(cands))
        if draw(st.integers(0, 9)) == 9:
            v = draw(st.sampled_from(['5', None, [1], 2.5, True]))
        ann = ('ann', inner, tuple(conds))
        if fam == 'nested':
            wrap = draw(st.sampled_from(['list', 'dict', 'optional', 'tuple']))
            others = [draw(st.sampled_from(cands)) for _ in range(draw(st.integers(0, 2)))]
            if wrap == 'list':
                return [('seq', 'List', ann), [*others, v], th]
            if wrap == 'dict':
                return [('map', 'Dict', ('s', 'str'), ann), {'k': v, **{f'o{i}': o for (i, o) in enumerate(others)}}, th]
            if wrap == 'optional':
                return [('union', 'Optional', (ann,)), draw(st.sampled_from([v, None])), th]
            return [('tup', 'Tuple', (('s', 'str'), ann)), ['s', v], th]
        return [ann, v, th]
    if fam == 'len':
        conds = [draw(cond_exprs(LEN_LEAF)) for _ in range(nconds)]
        inner = draw(st.sampled_from(LEN_INNER))
        ths = [x for c in conds for x in thresholds(c)] + [0, 1]
        n = max(0, draw(st.sampled_from(ths)) + draw(st.sampled_from([-1, 0, 0, 1])))
        if inner[0] == 's':
            v = ('ab' * 5)[:n] if inner[1] == 'str' else (b'ab' * 5)[:n]
        elif inner[0] == 'map':
            v = {f'k{i}': i for i in range(n)}
        else:
            v = list(range(n)) if draw(st.booleans()) else [0] * n      # duplicates shrink a set
        ann = ('ann', inner, tuple(conds))
        if draw(st.integers(0, 2)) == 2:
            # the annotated type as the type of a dataclass field (field types are rewritten when the class is processed)
            return [('cls', {'fields': [{'name': 'items', 'type': ann}, {'name': 'pad', 'type': ('s', 'int'), 'default': ['value', 0]}], 'opts': {}}), {'items': v}, n]
        return [ann, v, n]
    conds = [draw(cond_exprs(SHAPE_LEAF)) for _ in range(nconds)]
    inner = draw(st.sampled_from(ARR_INNER))
    dims = draw(st.lists(st.integers(0, 3), max_size=3))

    def build(ds: t.Sequence[int]) -> t.Any:
        return 1 if not ds else [build(ds[1:]) for _ in range(ds[0])]
    return [('ann', inner, tuple(conds)), build(dims), tuple(dims)]


def render(case: t.Any) -> t.Any:
    return {'type': tg.node(case[0]).render(), 'value': short(case[1], 150), 'near': short(case[2], 40)}


def find_ann(nd: tg.Node) -> t.Optional[tg.Ann]:
    for n in nd.walk():
        if isinstance(n, tg.Ann):
            return n
    return None


def check(case: t.Any, ctx: Ctx) -> None:
    import pane
    (spec, v, near) = case
    nd = tg.node(spec)
    ann = find_ann(nd)
    assert ann is not None
    T = nd.pytype()
    r = nd.ref(v)
    d = max(depth(c) for c in ann.conds)
    ctx.label(f"verdict:{type(r).__name__}", f"depth:{min(d, 4)}", f"conds:{len(ann.conds)}", f"inner:{ann.inner.kind}")
    ths = [x for c in ann.conds for x in thresholds(c)]
    probe = near if isinstance(near, (int, float)) and not isinstance(near, bool) else None
    close = probe is not None and any(abs(probe - th) <= 1 for th in ths if isinstance(th, (int, float)))
    ctx.nontrivial(d >= 2 or close or isinstance(near, tuple))
    ident = f"T = {nd.render()[:400]}; v = {short(v, 120)}"
    (k, got) = outcome(lambda: pane.from_data(v, T))
    ctx.evaluated()
    if k == 'exc':
        ctx.fail('predicate-exact', f"exception:{type(got).__name__}", f"{ident}; raised {type(got).__name__}: {str(got)[:200]}")
        return
    if isinstance(r, tg.Unspec):
        ctx.exclude(r.why)
        return
    if isinstance(r, tg.Acc):
        if k != 'ok':
            ctx.fail('predicate-exact', 'refused', f"{ident}; the inner type accepts and every condition holds, but: {str(got)[:250]}")
            return
        diff = same(got, r.image)
        if diff is not None:
            ctx.fail('value-unchanged', ann.inner.kind, f"{ident}; returned {short(got, 100)}: {diff}")
            return
        # result equals what the bare inner type produces (at the annotated position)
        bare = strip(nd)
        (kb, gb) = outcome(lambda: pane.from_data(v, bare.pytype()))
        if kb != 'ok' or same(got, gb) is not None:
            ctx.fail('value-unchanged', 'vs-bare-type', f"{ident}; with conditions {short(got, 100)}, without {short(gb, 100)}")
            return
    else:
        if k == 'ok':
            ctx.fail('predicate-exact', 'accepted', f"{ident}; must be refused ({r.why}) but gave {short(got, 100)}")
            return
        if r.why == 'predicate raised' and nd is ann:
            tree = got.tree
            if getattr(tree, 'cause', None) is None or ('tok_predicate_boom' not in str(got) and 'raises' in repr(case[0])):
                ctx.fail('raising-predicate-has-cause', type(tree).__name__, f"{ident}; the predicate raised, but the error carries no cause / message: {str(got)[:200]}")
                return
    # serialisation ignores conditions - also for a value violating them
    bare = strip(nd)
    (kb, xb) = outcome(lambda: pane.from_data(v, bare.pytype()))
    if kb == 'ok' and (nd is ann or isinstance(r, tg.Acc)):
        ctx.evaluated()
        (k1, d1) = outcome(lambda: pane.into_data(xb, T))
        (k2, d2) = outcome(lambda: pane.into_data(xb, bare.pytype()))
        if k1 != k2 or (k1 == 'ok' and canon(d1, False) != canon(d2, False)):
            ctx.fail('serialisation-ignores-conditions', ann.inner.kind, f"{ident}; x = {short(xb, 80)}; into_data with conditions: {k1} {short(d1, 80)}, without: {k2} {short(d2, 80)}")


def strip(nd: tg.Node) -> tg.Node:
    """The same type with the Annotated layer removed."""
    def rec(spec: t.Any) -> t.Any:
        if isinstance(spec, tuple) and spec and spec[0] == 'ann':
            return rec(spec[1])
        if isinstance(spec, tuple):
            return tuple(rec(x) for x in spec)
        return spec
    return tg.node(rec(tg._totuple(nd.spec)))


# ---- stock conditions x combinators x boundary values, enumerated ----------------------------------------------

STOCK = [('Positive',), ('Negative',), ('NonPositive',), ('NonNegative',), ('Finite',), ('val_range', 0, 1), ('val_range', None, 0), ('user_gt', 0)]
WRAPS = ['c', 'not', 'notnot', 'c-and-not', 'c-or-not', 'all-not', 'any-not']
TABLE_VALUES = [0, 1, -1, 2, 0.0, -0.0, 1.0, -1.0, 0.5, math.nextafter(0.0, 1.0), math.nextafter(0.0, -1.0), math.nextafter(1.0, 2.0),
                float('inf'), float('-inf'), float('nan'),
                # complex numbers (a supported scalar type) are finite when both parts are; they are not ordered
                0j, 1 + 2j, complex(0.0, float('inf')), complex(float('-inf'), 1.0), complex(float('nan'), 0.0), complex(1e308, -1e308),
                complex(1.5e308, 1.5e308), complex(-1.7e308, 1.7e308)]      # (both parts finite, the modulus is not representable)
N_REAL = 15


def table_cases(shard: int, nshards: int) -> t.Iterator[t.Any]:
    i = 0
    for ci in range(len(STOCK)):
        for w in WRAPS:
            for vi in range(len(TABLE_VALUES)):
                for inner in (('int', 'float') if vi < N_REAL else ('complex',)) + (('complex',) if STOCK[ci] == ('Finite',) and vi < N_REAL else ()):
                    if i % nshards == shard:
                        yield [ci, w, vi, inner]
                    i += 1


def check_table(case: t.Any, ctx: Ctx) -> None:
    (ci, w, vi, inner) = case
    c = STOCK[ci]
    expr = {'c': c, 'not': ('not', c), 'notnot': ('not', ('not', c)), 'c-and-not': ('and', c, ('not', c)), 'c-or-not': ('or', c, ('not', c)),
            'all-not': ('all', (('not', c), ('true',))), 'any-not': ('any', (('not', c),))}[w]
    check([('ann', ('s', inner), (expr,)), TABLE_VALUES[vi], TABLE_VALUES[vi]], ctx)


# ---- the shipped aliases of pane.types ----------------------------------------------------------------------

ALIASES = {
    'PositiveInt': (int, lambda v: v > 0), 'NonNegativeInt': (int, lambda v: v >= 0), 'NegativeInt': (int, lambda v: v < 0),
    'NonPositiveInt': (int, lambda v: v <= 0), 'PositiveFloat': (float, lambda v: v > 0), 'NonNegativeFloat': (float, lambda v: v >= 0),
    'NegativeFloat': (float, lambda v: v < 0), 'NonPositiveFloat': (float, lambda v: v <= 0), 'FiniteFloat': (float, math.isfinite),
}
ALIAS_VALUES = [0, 1, -1, 2, -2, 0.0, -0.0, 1.0, -1.0, 0.5, -0.5, math.nextafter(0.0, 1.0), math.nextafter(0.0, -1.0),
                float('inf'), float('-inf'), float('nan'), 10**30, -10**30, '1', None, True, [1]]


def alias_cases(shard: int, nshards: int) -> t.Iterator[t.Any]:
    i = 0
    for name in [*ALIASES, 'ListNotEmpty[int]', 'ListNotEmpty[str]', 'conditions-exported']:
        for (j, _) in enumerate(ALIAS_VALUES if not name.startswith(('ListNotEmpty', 'conditions')) else [[], [1], ['a'], [1, 2], (), (1,), 'x', None, {}]):
            if i % nshards == shard:
                yield [name, j]
            i += 1


def check_alias(case: t.Any, ctx: Ctx) -> None:
    import pane
    import pane.types as PT
    (name, j) = case
    ctx.label(f"alias:{name.split('[')[0]}")
    ctx.nontrivial(True)
    if name == 'conditions-exported':
        # the stock conditions exported at top level are the ones in pane.annotations
        import pane.annotations as A
        for n in ('Positive', 'NonPositive', 'Negative', 'NonNegative', 'Empty', 'NonEmpty', 'val_range', 'len_range', 'Condition'):
            if getattr(pane, n, None) is not getattr(A, n):
                ctx.fail('stock-aliases', 'export', f"pane.{n} is not pane.annotations.{n}")
        return
    if name.startswith('ListNotEmpty'):
        elem = int if 'int' in name else str
        T = PT.ListNotEmpty[elem]
        v = [[], [1], ['a'], [1, 2], (), (1,), 'x', None, {}][j]
        want = tg.is_seq(v) and len(v) >= 1 and all(type(x) is elem for x in v)
    else:
        (base, pred) = ALIASES[name]
        T = getattr(PT, name)
        v = ALIAS_VALUES[j]
        ok_kind = (type(v) is int) if base is int else (type(v) in (int, float))
        if type(v) is bool:
            ctx.exclude('bool given to a numeric target (unspecified)')
            return
        try:
            want = ok_kind and bool(pred(base(v)))
        except OverflowError:
            want = False
    (k, got) = outcome(lambda: pane.from_data(v, T))
    ctx.evaluated()
    if k == 'exc' or (k == 'ok') != want:
        ctx.fail('stock-aliases', name.split('[')[0], f"from_data({v!r}, pane.types.{name}) {'accepted as ' + repr(got) if k == 'ok' else 'refused / raised ' + type(got).__name__}; "
                 f"the alias's documented predicate says {'accept' if want else 'refuse'}")


# ---- conditions next to an annotation that is not a condition -------------------------------------------------------------------
#
# docs/using/advanced.md: custom annotations subclass ConvertAnnotation and wrap the converter built so far.  Annotated[int, *pre,
# Plus100(), *post]: the conditions before the annotation restrict what the inner converter yields (the given int), those after
# it restrict what the annotation yields (the int plus 100) - each predicate is asked once, about the value of its own layer.

_CA: t.Dict[str, t.Any] = {}


def _plus100() -> t.Any:
    if 'ann' not in _CA:
        import pane.annotations as A
        import pane.converters as C

        class _Plus100Converter(C.Converter):
            def __init__(self, inner: t.Any, handlers: t.Any) -> None:
                self.inner = inner if isinstance(inner, C.Converter) else C.make_converter(inner, handlers)

            def expected(self, plural: bool = False) -> str:
                return self.inner.expected(plural) + ' (read plus 100)'

            def into_data(self, val: t.Any) -> t.Any:
                return self.inner.into_data(val - 100)

            def try_convert(self, val: t.Any) -> t.Any:
                return self.inner.try_convert(val) + 100

            def collect_errors(self, val: t.Any) -> t.Any:
                return self.inner.collect_errors(val)

        class Plus100(A.ConvertAnnotation):
            def _converter(self, inner_type: t.Any, *, handlers: t.Any) -> t.Any:
                return _Plus100Converter(inner_type, handlers)

            def __hash__(self) -> int:
                return 100

            def __eq__(self, other: t.Any) -> bool:
                return type(other) is type(self)

        _CA['ann'] = Plus100
    return _CA['ann']


_CA_BOUNDS = [-150, -100, -50, 0, 50, 100, 150]
ca_cases = st.tuples(st.lists(st.tuples(st.sampled_from(['gt', 'lt']), st.sampled_from(_CA_BOUNDS)), max_size=2),
                     st.lists(st.tuples(st.sampled_from(['gt', 'lt']), st.sampled_from(_CA_BOUNDS)), max_size=2),
                     st.one_of(st.sampled_from([-151, -150, -100, -99, -51, -1, 0, 1, 49, 50, 51, 99, 100, 101, 151]), st.integers(-300, 300))).map(list)


def check_custom_annotation(case: t.Any, ctx: Ctx) -> None:
    import pane
    from pane.annotations import Condition
    (pre, post, v) = case

    def cond(kind: str, k: int) -> t.Any:
        key = (kind, k)
        if key not in _CA:
            _CA[key] = Condition((lambda x: x > k) if kind == 'gt' else (lambda x: x < k), f"{'above' if kind == 'gt' else 'below'} {k}")
        return _CA[key]

    def holds(kind: str, k: int, x: int) -> bool:
        return x > k if kind == 'gt' else x < k
    T = t.Annotated[(int, *[cond(*c) for c in pre], _plus100()(), *[cond(*c) for c in post])]      # type: ignore
    want_ok = all(holds(kd, k, v) for (kd, k) in pre) and all(holds(kd, k, v + 100) for (kd, k) in post)
    ctx.label(f"pre:{len(pre)},post:{len(post)}", 'accept' if want_ok else 'reject')
    ctx.nontrivial(bool(pre))
    ctx.evaluated()
    (k, r) = outcome(lambda: pane.from_data(v, T))
    ident = f"Annotated[int, {', '.join(f'{kd} {b}' for (kd, b) in pre)}{', ' if pre else ''}Plus100(){', ' if post else ''}{', '.join(f'{kd} {b}' for (kd, b) in post)}] given {v}"
    if want_ok and (k != 'ok' or r != v + 100 or type(r) is not int):
        ctx.fail('predicate-exact', 'around-custom-annotation:refused', f"{ident}: every condition holds for the value of its layer ({v} inside, {v + 100} outside) "
                 f"but the result is {short(r, 100) if k == 'ok' else type(r).__name__ + ': ' + str(r)[:200]}")
    elif not want_ok and k == 'ok':
        ctx.fail('predicate-exact', 'around-custom-annotation:accepted', f"{ident}: a condition fails for the value of its layer ({v} inside, {v + 100} outside) but {r!r} was returned")
    elif not want_ok and k != 'ce':
        ctx.fail('predicate-exact', f"around-custom-annotation:{type(r).__name__}", f"{ident}: expected ConvertError, got {type(r).__name__}: {str(r)[:200]}")


# ---- predicates whose answer is not a bool ------------------------------------------------------------------------------------------
#
# "behave as the corresponding Boolean ... predicates": an answer counts by its truth, like anywhere in Python.  An answer whose
# truth cannot be told (an array of several elements - what a sign condition yields on an array -, an object whose __bool__ raises) is a
# predicate that raised: a failed condition, ConvertError carrying the cause.

ANSWERS = ['1', '0', "'x'", "''", '[0]', '[]', 'None', 'ambiguous-object', 'array-of-two', 'array-of-one-true', 'array-of-one-false']


def answer_cases(shard: int, nshards: int) -> t.Iterator[t.Any]:
    i = 0
    for a in [*ANSWERS, 'stock-Positive-on-array', 'stock-NonNegative-on-array-any']:
        for wrap in ('direct', 'not'):
            for where in ('bare', 'List', 'Dict'):
                if i % nshards == shard:
                    yield [a, wrap, where]
                i += 1


def check_answers(case: t.Any, ctx: Ctx) -> None:
    import numpy
    import pane
    from pane.annotations import Condition, Positive, NonNegative
    (a, wrap, where) = case

    class Ambiguous:
        def __bool__(self) -> bool:
            raise ValueError('tok_truth_boom: the truth of this answer cannot be told')
    ctx.label(f"answer:{a}", wrap, where)
    ctx.nontrivial(True)
    (inner, v) = (int, 5)
    if a.startswith('stock-'):
        cond = Positive if 'Positive' in a else NonNegative
        (inner, v) = (numpy.ndarray, [1, 2]) if 'Positive' in a else (t.Any, numpy.array([1.0, 2.0]))
        truth: t.Optional[bool] = None
    else:
        ans = {'1': 1, '0': 0, "'x'": 'x', "''": '', '[0]': [0], '[]': [], 'None': None, 'ambiguous-object': Ambiguous(), 'array-of-two': numpy.array([True, False]),
               'array-of-one-true': numpy.array([True]), 'array-of-one-false': numpy.array([False])}[a]
        cond = Condition(lambda x: ans, 'answers with an object')
        try:
            truth = bool(ans)
        except ValueError:
            truth = None
    if wrap == 'not':
        cond = ~cond
        truth = None if truth is None else not truth
    T0 = t.Annotated[inner, cond]       # type: ignore[valid-type]
    (T, data) = {'bare': (T0, v), 'List': (t.List[T0], [v]), 'Dict': (t.Dict[str, T0], {'k': v})}[where]
    ctx.evaluated()
    (k, got) = outcome(lambda: pane.from_data(data, T))
    ident = f"Annotated[{getattr(inner, '__name__', inner)}, {'~' if wrap == 'not' else ''}<condition answering {a}>] ({where}) given {short(data, 60)}"
    if k == 'exc':
        ctx.fail('raising-predicate', f"answer-truth-raises:{type(got).__name__}", f"{ident}: {type(got).__name__} escaped: {str(got)[:150]} (want ConvertError carrying the cause)")
    elif truth is None:
        if k == 'ok':
            ctx.fail('raising-predicate', 'answer-truth-raises:accepted', f"{ident}: accepted as {short(got, 80)} although the answer has no truth value")
        else:
            from ..errtree import walk_leaves
            if not any(getattr(leaf, 'cause', None) is not None for (_, leaf, _) in walk_leaves(got.tree)):
                ctx.fail('raising-predicate', 'answer-truth-raises:no-cause', f"{ident}: refused, but no leaf of the tree carries the exception as its cause: {short(got.tree, 200)}")
    elif (k == 'ok') != truth:
        ctx.fail('boolean-algebra', 'answer-truth', f"{ident}: {'accepted' if k == 'ok' else 'refused'}, the answer's truth is {truth}")


# ---- emptiness is about length, not truth ---------------------------------------------------------------------------------------
#
# Empty / NonEmpty: "have no elements" - len(value) == 0 / != 0.  Values whose truth is something else than "has elements" (arrays:
# [0] is false, [1, 2] has no truth at all; a user container with a __bool__ of its own) tell the two apart.

EMPTINESS = ['array []', 'array [0]', 'array [1, 2]', 'array [[0, 0], [0, 0]]', 'list []', 'list [0]', 'bag empty-but-true', 'bag full-but-false']


def emptiness_cases(shard: int, nshards: int) -> t.Iterator[t.Any]:
    i = 0
    for e in range(len(EMPTINESS)):
        for cond in ('Empty', 'NonEmpty', '~Empty', '~NonEmpty'):
            for where in ('bare', 'List'):
                if i % nshards == shard:
                    yield [e, cond, where]
                i += 1


_BAG: t.List[t.Any] = []


def check_emptiness(case: t.Any, ctx: Ctx) -> None:
    import numpy
    import pane
    from pane.annotations import Empty, NonEmpty
    (e, cname, where) = case
    if not _BAG:
        def bag_len(self: t.Any) -> int:
            return len(self.items)

        def bag_bool(self: t.Any) -> bool:
            return self.enabled
        _BAG.append(type('Bag', (pane.PaneBase,), {'__annotations__': {'items': t.List[int], 'enabled': bool}, '__len__': bag_len, '__bool__': bag_bool}))
    Bag = _BAG[0]
    name = EMPTINESS[e]
    (inner, data, n) = {
        'array []': (numpy.ndarray, [], 0), 'array [0]': (numpy.ndarray, [0], 1), 'array [1, 2]': (numpy.ndarray, [1, 2], 2),
        'array [[0, 0], [0, 0]]': (numpy.ndarray, [[0, 0], [0, 0]], 2), 'list []': (t.List[int], [], 0), 'list [0]': (t.List[int], [0], 1),
        'bag empty-but-true': (Bag, {'items': [], 'enabled': True}, 0), 'bag full-but-false': (Bag, {'items': [1, 2], 'enabled': False}, 2),
    }[name]
    cond = {'Empty': Empty, 'NonEmpty': NonEmpty, '~Empty': ~Empty, '~NonEmpty': ~NonEmpty}[cname]
    want = {'Empty': n == 0, 'NonEmpty': n != 0, '~Empty': n != 0, '~NonEmpty': n == 0}[cname]
    T0 = t.Annotated[inner, cond]       # type: ignore[valid-type]
    (T, v) = (T0, data) if where == 'bare' else (t.List[T0], [data])
    ctx.label(f"emptiness:{name.split(' ')[0]}", cname, where)
    ctx.nontrivial(name not in ('list []', 'list [0]'))
    ctx.evaluated()
    (k, got) = outcome(lambda: pane.from_data(v, T))
    if k == 'exc' or (k == 'ok') != want:
        ctx.fail('stock-conditions', f"emptiness:{cname}", f"Annotated[{getattr(inner, '__name__', inner)}, {cname}] ({where}) given {v!r}: "
                 f"{'accepted' if k == 'ok' else 'refused' if k == 'ce' else 'raised ' + type(got).__name__ + ': ' + str(got)[:100]}; the value has {n} element(s)")


def suites(tier: str) -> t.List[Suite]:
    big = tier == 'thorough'
    return [
        Suite('conditions', check, strategy=cases, examples=10000 if big else 800, budget_s=480 if big else 40, render=render),
        Suite('custom-annotation', check_custom_annotation, strategy=lambda: ca_cases, examples=3000 if big else 300, budget_s=60 if big else 10,
              render=lambda c: {'conditions before Plus100()': c[0], 'conditions after': c[1], 'value': c[2]}),
        Suite('predicate-answers', check_answers, cases=answer_cases, exhaustive=True, budget_s=60, render=lambda c: {'answer': c[0], 'wrapped': c[1], 'where': c[2]}),
        Suite('emptiness', check_emptiness, cases=emptiness_cases, exhaustive=True, budget_s=60, render=lambda c: {'value': EMPTINESS[c[0]], 'condition': c[1], 'where': c[2]}),
        Suite('shipped-aliases', check_alias, cases=alias_cases, exhaustive=True, budget_s=60),
        Suite('stock-table', check_table, cases=table_cases, exhaustive=True, budget_s=120, render=lambda c: {'condition': STOCK[c[0]], 'wrapped': c[1], 'value': repr(TABLE_VALUES[c[2]]), 'inner': c[3]}),
    ]
