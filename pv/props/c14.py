"""
C14  Dataclass construction is conversion; defaults are fresh; set-fields exact.

Generated: class definitions (field types from the type grammar incl. nested
dataclasses, default kinds none / value / factory, keyword-only, aliases,
layouts, validating and counting __post_init__) x a subset of fields to supply
x values (valid or mutated) x construction path (keyword, positional, mixed,
mapping data, sequence data, make_unchecked).  Oracle: the class model.
"""

from __future__ import annotations

import typing as t

from hypothesis import strategies as st

from ..core import Suite, Ctx
from .. import tg, cg, gen
from ..same import same
from ..codec import short
from ..oracles import outcome

ID = 'C14'
RULE = ("Hypothesis: class spec (0-4 fields; types from the grammar incl. nested dataclasses; defaults none/value/factory; kw-only; aliases / "
        "in_names / rename; layouts; validating + counting __post_init__) x supplied-field subset x per-field value (valid, 25% mutated) x "
        "path in {keyword, positional, mixed, mapping, sequence, make_unchecked}. Two instances are built per case to compare factory products. "
        "Non-trivial = a field with a default factory is left unsupplied, or the path is not the plain keyword constructor; distinct by case.")
ASSUMPTIONS = [
    "constructor arguments are interchange data (typed arguments are C06's subject)",
    "a __post_init__ failure in the *constructor* may surface as any exception; on the data paths it must be ConvertError",
    "the python field name as a mapping key when other input names are configured is unspecified and never generated here",
]

PATHS = ['kw', 'pos', 'mixed', 'mapping', 'sequence', 'unchecked']


@st.composite
def cases(draw, ftypes: st.SearchStrategy[t.Any]) -> t.Any:
    spec = draw(cg.class_specs(ftypes, max_fields=4, flags=True))      # flags: one class in four is not frozen
    cs = dict(spec[1])
    cs['count_post'] = True
    spec = ('cls', cs)
    nd = cg.ClsNode(spec)
    path = draw(st.sampled_from(PATHS))
    supplied: t.List[t.List[t.Any]] = []
    fields = [f for f in nd.fields if f.init]
    if path in ('pos', 'sequence'):
        n = draw(st.integers(0, len(nd.pos)))
        chosen = nd.pos[:n]
    elif path == 'mixed':
        n = draw(st.integers(0, len(nd.pos)))
        chosen = nd.pos[:n] + [f for f in fields if f not in nd.pos[:n] and draw(st.integers(0, 2)) > 0]
    else:
        chosen = [f for f in fields if (not f.has_default()) or draw(st.integers(0, 2)) > 0]
        if draw(st.integers(0, 9)) == 9 and chosen:
            chosen = chosen[:-1]      # sometimes leave a (possibly required) field out
    npos = 0
    if path in ('pos', 'sequence'):
        npos = len(chosen)
    elif path == 'mixed':
        npos = n
    for f in chosen:
        v = draw(f.node.valid())
        if draw(st.integers(0, 3)) == 3:
            v = gen.mutate(draw, v, f.node.names())
        v = tg.plainify(v)    # plain list / dict: convert() = from_data(into_data()) normalises exotic containers at Any positions
        key = draw(st.sampled_from(f.in_names)) if path == 'mapping' else f.name
        supplied.append([f.name, key, v])
    extras = draw(st.integers(0, 3)) if (path == 'mapping' and nd.allow_extra) else 0
    return [spec, path, npos, supplied, extras]


def render(case: t.Any) -> t.Any:
    (spec, path, npos, supplied) = case[:4]
    return {'class': cg.ClsNode(spec).render(), 'path': path, 'positional': npos, 'supplied': [[n, k, short(v, 60)] for (n, k, v) in supplied],
            'unknown_keys_added': case[4] if len(case) > 4 else 0}


EXTRAS = [0]      # unknown keys added to mapping data (allow_extra classes ignore them; they must not change anything)


def build(nd: cg.ClsNode, path: str, npos: int, supplied: t.List[t.List[t.Any]]) -> t.Tuple[str, t.Any]:
    Cls = nd.pytype()
    vals = [v for (_, _, v) in supplied]
    if path in ('kw', 'unchecked'):
        kw = {n: v for (n, _, v) in supplied}
        return outcome(lambda: (Cls.make_unchecked if path == 'unchecked' else Cls)(**kw))
    if path in ('pos', 'mixed'):
        args = vals[:npos]
        kw = {n: v for (n, _, v) in supplied[npos:]}
        return outcome(lambda: Cls(*args, **kw))
    if path == 'mapping':
        data = {k: v for (_, k, v) in supplied}
        for i in range(EXTRAS[0]):
            data[f"zz_unknown_{i}"] = i
        return outcome(lambda: Cls.from_data(data))
    return outcome(lambda: Cls.from_data(list(vals)))


_SUBS: t.Dict[t.Any, t.Any] = {}


def check(case: t.Any, ctx: Ctx) -> None:
    import pane
    (spec, path, npos, supplied) = case[:4]
    EXTRAS[0] = case[4] if len(case) > 4 else 0
    nd = cg.ClsNode(spec)
    Cls = nd.pytype()
    names = [n for (n, _, _) in supplied]
    fmap = {f.name: f for f in nd.fields}
    ctx.label(f"path:{path}")
    unsupplied_factory = [f for f in nd.fields if f.init and f.name not in names and f.default is not None and f.default[0] == 'factory']
    ctx.nontrivial(bool(unsupplied_factory) or path != 'kw')
    ident = f"{nd.render()[:500]}; path={path}; supplied={[(k, short(v, 50)) for (_, k, v) in supplied]}"

    # ---- model --------------------------------------------------------------------------------
    missing = [f.name for f in nd.fields if f.init and not f.has_default() and f.name not in names]
    layout_off = (path == 'mapping' and 'struct' not in nd.in_format) or (path == 'sequence' and 'tuple' not in nd.in_format)
    parts = []
    values: t.Dict[str, t.Any] = {}
    for (n, _, v) in supplied:
        p = fmap[n].node.ref(v) if path != 'unchecked' else tg.Acc(v)
        parts.append(p)
        if isinstance(p, tg.Acc):
            values[n] = p.image
    if path == 'sequence' and not layout_off and not (nd.min_len <= len(supplied) <= nd.max_len):
        expect: t.Any = tg.Rej('length')
    elif layout_off:
        expect = tg.Rej('layout not enabled')
    elif missing:
        expect = tg.Rej('missing ' + ','.join(missing))
    else:
        expect = nd._finish(dict(values), parts, set(names))
    if path == 'unchecked' and isinstance(expect, tg.Rej) and expect.why.startswith('__post_init__'):
        pass
    before = cg.POST_COUNTS.get(nd.key, 0)
    (k, inst) = build(nd, path, npos, supplied)
    after = cg.POST_COUNTS.get(nd.key, 0)
    ctx.evaluated()

    if isinstance(expect, tg.Unspec):
        ctx.exclude(f"unspecified: {expect.why}")
        return
    data_path = path in ('mapping', 'sequence')
    if isinstance(expect, tg.Rej):
        ctx.label('expect:reject')
        if k == 'ok':
            ctx.fail('construction-is-conversion', f"{path}:accepted", f"{ident}; expected a refusal ({expect.why}) but got {short(inst, 150)}")
        elif data_path and k != 'ce':
            ctx.fail('construction-is-conversion', f"{path}:{type(inst).__name__}", f"{ident}; expected ConvertError ({expect.why}), got {type(inst).__name__}: {str(inst)[:150]}")
        elif not data_path and expect.why not in ('length',) and not expect.why.startswith(('missing', '__post_init__')) and k != 'ce':
            ctx.fail('construction-is-conversion', f"{path}:{type(inst).__name__}", f"{ident}; an unacceptable argument must raise ConvertError ({expect.why}), got {type(inst).__name__}: {str(inst)[:150]}")
        return
    ctx.label('expect:instance')
    if k != 'ok':
        ctx.fail('construction-is-conversion', f"{path}:refused", f"{ident}; expected an instance, got {type(inst).__name__}: {str(inst)[:300]}")
        return
    d = same(inst, expect.image)
    if d is not None:
        ctx.fail('fields-and-defaults', path, f"{ident}; got {short(inst, 200)}: {d}")
        return
    if after - before != 1:
        ctx.fail('post-init-once', path, f"{ident}; __post_init__ ran {after - before} times for one instance")
        return
    so = inst.dict(set_only=True)
    if set(so) != set(names):
        ctx.fail('set-fields-exact', path, f"{ident}; dict(set_only=True) has keys {sorted(so)}, supplied were {sorted(names)}")
        return
    if nd.opts.get('frozen') is False:
        # a non-frozen instance: assigning to a field supplies it (the record gains exactly that field); the record is one of
        # *fields* - an attribute that is no field of the class does not enter it, and dict(set_only=True) stays a dict of fields
        (km, m) = build(nd, path, npos, supplied)
        if km == 'ok':
            ctx.evaluated()
            want = set(names)
            for f in nd.fields:
                if f.init and f.name not in names:
                    setattr(m, f.name, getattr(m, f.name))
                    want.add(f.name)
                    break
            (ka, _) = outcome(lambda: setattr(m, 'scratch_note', 1))
            got = outcome(lambda: set(m.dict(set_only=True)))
            if got != ('ok', want):
                ctx.fail('set-fields-exact', 'assignment', f"{ident}; after assigning to {sorted(want - set(names))} and "
                         f"{'setting' if ka == 'ok' else 'trying to set'} a non-field attribute, dict(set_only=True) has keys "
                         f"{sorted(got[1]) if got[0] == 'ok' else repr(got[1])}, expected {sorted(want)}")
                return
    if nd.opts.get('frozen') is False:
        # the same on an instance of a *subclass*: assigning an inherited field supplies it just like one of the subclass's own
        key = ('sub', nd.key)
        if key not in _SUBS:
            try:
                _SUBS[key] = type('Sub' + Cls.__name__, (Cls,), {'__annotations__': {'sub_extra': int}, 'sub_extra': pane.field(default=0, kw_only=True)})
            except TypeError:
                _SUBS[key] = None      # (a layout that cannot take another field)
        Sub = _SUBS[key]
        if Sub is not None:
            (ks, m2) = outcome(lambda: Sub.from_dict_unchecked({n: getattr(inst, n) for n in names}, set_fields=set(names)))
            inherited = [f.name for f in nd.fields if f.init and f.name not in names][:1]
            if ks == 'ok' and all(hasattr(inst, g) for g in inherited):
                ctx.evaluated()
                for g in inherited:
                    setattr(m2, g, getattr(inst, g))
                setattr(m2, 'sub_extra', 3)
                got = outcome(lambda: set(m2.dict(set_only=True)))
                want = set(names) | set(inherited) | {'sub_extra'}
                if got != ('ok', want):
                    ctx.fail('set-fields-exact', 'assignment:inherited-field', f"{ident}; on an instance of a subclass (one more field, sub_extra), after assigning the inherited "
                             f"field(s) {inherited} and sub_extra, dict(set_only=True) has keys {sorted(got[1]) if got[0] == 'ok' else repr(got[1])}, expected {sorted(want)}")
                    return
    if path == 'unchecked':
        for (n, _, v) in supplied:
            if getattr(inst, n) is not v:
                ctx.fail('unchecked-verbatim', path, f"{ident}; make_unchecked stored {short(getattr(inst, n), 80)} for {n}, not the argument object itself")
                return
    # defaults: never the factory, never shared between instances
    (k2, inst2) = build(nd, path, npos, supplied)
    ctx.evaluated()
    if k2 == 'ok':
        for f in nd.fields:
            if f.name in names or f.default is None:
                continue
            a, b = getattr(inst, f.name), getattr(inst2, f.name)
            if callable(a) and not callable(nd.default_object(f)):
                ctx.fail('defaults-fresh', f"{path}:factory-itself", f"{ident}; field {f.name} holds the factory {a!r}")
                return
            if f.default[0] == 'factory' and a is b and isinstance(a, (list, dict, set, bytearray)) :
                ctx.fail('defaults-fresh', f"{path}:shared", f"{ident}; two instances share one factory product for {f.name}: {short(a, 60)}")
                return
    # agreement with the other paths
    if path in ('kw', 'pos', 'mixed'):
        alt_supplied = [[n, fmap[n].in_names[0], v] for (n, _, v) in supplied]
        if 'struct' in nd.in_format:
            (k3, inst3) = build(nd, 'mapping', 0, alt_supplied)
            ctx.evaluated()
            if k3 != 'ok' or same(inst3, expect.image) is not None:
                ctx.fail('paths-agree', f"{path}-vs-mapping", f"{ident}; constructor gives {short(inst, 120)}, from_data of the same fields by name gives "
                         f"{short(inst3, 120) if k3 == 'ok' else type(inst3).__name__ + ': ' + str(inst3)[:150]}")
                return
        if 'tuple' in nd.in_format and path == 'pos':
            (k4, inst4) = build(nd, 'sequence', npos, supplied)
            ctx.evaluated()
            if k4 != 'ok' or same(inst4, expect.image) is not None:
                ctx.fail('paths-agree', f"{path}-vs-sequence", f"{ident}; constructor gives {short(inst, 120)}, from_data by position gives "
                         f"{short(inst4, 120) if k4 == 'ok' else type(inst4).__name__ + ': ' + str(inst4)[:150]}")


# ---- fields with a converter of their own --------------------------------------------------------------------------------
#
# field(converter=...) replaces the conversion of that field on every checked path (constructor, mapping data, sequence data)
# - once - and make_unchecked still stores its arguments verbatim.  The converter is not idempotent on its own output (it
# scales), so applying it twice, or where nothing should be applied, shows.

_FC: t.Dict[str, t.Any] = {}


def _fc_class() -> t.Any:
    if 'cls' not in _FC:
        import pane
        from pane.converters import Converter
        from pane.errors import ParseInterrupt, WrongTypeError

        class Cents(Converter[int]):
            def expected(self, plural: bool = False) -> str:
                return 'prices' if plural else 'a price'

            def try_convert(self, val: t.Any) -> int:
                if type(val) in (int, float):
                    return int(round(val * 100))
                raise ParseInterrupt()

            def collect_errors(self, val: t.Any) -> t.Any:
                return None if type(val) in (int, float) else WrongTypeError('a price', val)

            def into_data(self, val: t.Any) -> t.Any:
                return val / 100
        _FC['cls'] = type('Priced', (pane.PaneBase,), {'__annotations__': {'name': str, 'price': int, 'tags': t.List[str]},
                                                         'price': pane.field(converter=Cents()), 'tags': pane.field(default_factory=list)},
                          in_format=('struct', 'tuple'))
    return _FC['cls']


@st.composite
def fc_cases(draw) -> t.Any:
    return [draw(st.sampled_from(['keyword', 'positional', 'mapping', 'sequence', 'unchecked', 'unchecked-object', 'replace'])),
            draw(st.integers(0, 50)), draw(st.booleans())]


def check_field_converter(case: t.Any, ctx: Ctx) -> None:
    (path, p, with_tags) = case
    Cls = _fc_class()
    ctx.label(f"field-converter:{path}")
    ctx.nontrivial(True)
    ctx.evaluated()
    tags = ['t'] if (with_tags and path != 'replace') else []
    want = p * 100
    call = {
        'keyword': lambda: Cls(name='n', price=p, **({'tags': tags} if with_tags else {})),
        'positional': lambda: Cls('n', p, *([tags] if with_tags else [])),
        'mapping': lambda: Cls.from_data({'name': 'n', 'price': p, **({'tags': tags} if with_tags else {})}),
        'sequence': lambda: Cls.from_data(['n', p, *([tags] if with_tags else [])]),
        'unchecked': lambda: Cls.make_unchecked('n', p),
        'unchecked-object': lambda: Cls.make_unchecked('n', _SENTINEL),
        'replace': lambda: Cls('n', 1).__replace__(price=p),
    }[path]
    (k, x) = outcome(call)
    if k != 'ok':
        ctx.fail('field-converter', f"{path}:{type(x).__name__}", f"class Priced: price: int = field(converter=<x100>); path {path} with price={p}: raised {type(x).__name__}: {str(x)[:150]}")
        return
    expect = {'unchecked': p, 'unchecked-object': _SENTINEL}.get(path, want)
    if x.price is not expect and x.price != expect:
        ctx.fail('field-converter', path, f"class Priced: price: int = field(converter=<x100>); path {path} with price={p!r}: the field holds {x.price!r}, expected {expect!r} "
                 f"({'stored verbatim' if path.startswith('unchecked') else 'converted once by the field converter'})")
        return
    if not path.startswith('unchecked') and x != Cls.from_data({'name': 'n', 'price': p, 'tags': tags}):
        ctx.fail('field-converter', f"{path}:vs-mapping", f"path {path} gives {x!r}, mapping data gives {Cls.from_data({'name': 'n', 'price': p, 'tags': tags})!r}")


_SENTINEL = object()


def suites(tier: str) -> t.List[Suite]:
    big = tier == 'thorough'
    inner = cg.class_specs(tg.type_specs(2), max_fields=3)
    ftypes = st.one_of(tg.type_specs(4 if big else 3), tg.type_specs(2, classes=inner))
    def post_init_cases(shard: int, nshards: int) -> t.Iterator[t.Any]:
        from .c04 import hook_cases
        for (i, c) in enumerate(c for c in hook_cases(0, 1) if c[0] == 'post_init'):
            if i % nshards == shard:
                yield c

    def check_post_init(case: t.Any, ctx: Ctx) -> None:
        # "__post_init__ runs for every instance created, a failure there surfacing as ConvertError on data paths" - whatever it raises
        from .c04 import check_hooks
        check_hooks(case, ctx)
    return [Suite('post-init-failures', check_post_init, cases=post_init_cases, exhaustive=True, budget_s=30,
                  render=lambda c: {'raises': c[1], 'layout': c[2], 'where': c[3]}),
            Suite('construct', check, strategy=lambda: cases(ftypes), examples=8000 if big else 600, budget_s=480 if big else 40, render=render),
            Suite('field-converter', check_field_converter, strategy=fc_cases, examples=400 if big else 40, budget_s=30 if big else 10,
                  render=lambda c: {'path': c[0], 'price': c[1], 'tags given': c[2]})]
