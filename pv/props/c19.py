"""
C19  JSON / YAML file round trip and stream ownership.

Typed values of generated types whose serialised form is representable in the
format are written with write_json / write_yaml (to a Path, a str path, a
caller's text stream; and returned as a string by the dataclass methods) under
generated formatting options and read back with from_json / from_yaml /
from_yaml_all and the dataclass classmethods.  Oracle: the value read back is
the same as the one written (the in-memory round trip of C05 is a precondition,
so what is decided here is the I/O layer); a caller's stream is left open, a
file pane opened is closed and was opened as UTF-8.
"""

from __future__ import annotations

import io
import os
import pathlib
import shutil
import tempfile
import typing as t

from hypothesis import strategies as st

from ..core import Suite, Ctx
from .. import tg, cg, gen
from ..same import same, SKIP_EXCLUDED
from ..codec import short
from ..oracles import outcome

ID = 'C19'
RULE = ("Hypothesis: type spec (full grammar) x value built from the type, forced to contain non-ASCII / multi-line text in a third of the cases; "
        "kept when the serialised form is representable (JSON: str keys, no bytes/complex/nan; YAML: scalar keys, no complex/nan); sink in "
        "{Path, str path, StringIO, caller-opened file, returned string}; options indent / sort_keys / default_flow_style / allow_unicode / "
        "explicit_start / explicit_end; lists of 0-3 values for from_yaml_all. Non-trivial = non-ASCII or multi-line text, or a non-default "
        "option, or a path sink; distinct by case.")
ASSUMPTIONS = [
    "precondition: from_data(into_data(x, T), T) is the same as x in memory (C05); cases violating it are excluded and counted",
    "width and default_style are left at their defaults; NaN is excluded (not equal to itself)",
    "text that PyYAML itself cannot emit or re-read (some control characters) is excluded and counted",
]

TMP = [None]
OPENED: t.List[t.Tuple[t.Any, t.Dict[str, t.Any]]] = []


def _tmpdir() -> str:
    if TMP[0] is None:
        TMP[0] = tempfile.mkdtemp(prefix='pv-c19-', dir='/tmp')
        import atexit
        atexit.register(lambda: shutil.rmtree(TMP[0], ignore_errors=True))
    return TMP[0]


def cleanup() -> None:
    if TMP[0] is not None:
        shutil.rmtree(TMP[0], ignore_errors=True)
        TMP[0] = None


def _hook_open() -> None:
    import pane.io as pio
    if getattr(pio, '_pv_hooked', False):
        return
    import builtins

    def spy_open(file, mode='r', *a, **kw):
        f = builtins.open(file, mode, *a, **kw)
        OPENED.append((f, dict(kw, mode=mode)))
        return f
    pio.open = spy_open  # type: ignore   (observation from outside: pane/io.py looks `open` up in its module namespace first)
    pio._pv_hooked = True  # type: ignore


# characters YAML emitters treat specially (NEL, LS, PS, BOM, NBSP, CR, DEL): the C and the pure-Python emitter of PyYAML differ on some
HOSTILE = ['first\x85second', 'k\x85', 'a\u2028b', 'a\u2029b', '\ufeffbom', 'nb\xa0sp', 'cr\rlf', 'del\x7f', '\x85', 'x\x85 y']
SPICE = ['é', '日本語', 'line1\nline2', 'tab\there', '😀', 'ñandú', ' leading', 'trailing ', 'quote"s', "it's", 'yes', 'null', '~', '1e3', '---', 'a: b', '# c', '']


def representable(d: t.Any, fmt: str) -> bool:
    if d is None or isinstance(d, (bool, str)):
        return True
    if isinstance(d, int):
        return abs(d) < 10**300
    if isinstance(d, float):
        return d == d
    if isinstance(d, bytes):
        return fmt == 'yaml'
    if isinstance(d, (list, tuple)):
        return all(representable(x, fmt) for x in d)
    if isinstance(d, dict):
        for (k, x) in d.items():
            if fmt == 'json' and type(k) is not str:
                return False
            if fmt == 'yaml' and not (k is None or isinstance(k, (bool, str, int)) or (isinstance(k, float) and k == k)):
                return False
            if not representable(x, fmt):
                return False
        return True
    return False


# text that some YAML scalar resolver (1.1, 1.2, PyYAML's own, a looser one) reads as a number, a bool, a date or a merge key: the
# writer must quote exactly what the reader would otherwise resolve - the two sides have to agree, whatever either does alone
LOOKALIKES = ['1e5', '12e4', '0e1', '2E-3', '1E3', '-1e2', '1_000', '0o17', '017', '0x1F', '0b101', '1:30', '.5', '5.', '+1', '1.', '.inf', '-.INF', '.nan',
              'on', 'off', 'y', 'n', 'NO', 'Yes', 'TRUE', 'Null', 'NULL', '2001-01-01', '2001-01-01 10:00:00', '<<', '=', '!!str', '&a', '*a', '12e', 'e5']


def spice(draw: t.Any, v: t.Any, depth: int = 0) -> t.Any:
    """Replace some strings by non-ASCII / multi-line ones (validity is re-checked by the caller)."""
    if isinstance(v, str) and draw(st.booleans()):
        k = draw(st.integers(0, 5))
        if k >= 4:
            return draw(st.sampled_from(LOOKALIKES))
        return draw(st.sampled_from(HOSTILE if k >= 2 else SPICE)) + (v if draw(st.booleans()) else '')
    if isinstance(v, list) and depth < 5:
        return [spice(draw, x, depth + 1) for x in v]
    if isinstance(v, dict) and depth < 5:
        return {k: spice(draw, x, depth + 1) for (k, x) in v.items()}
    return v


@st.composite
def cases(draw, specs: st.SearchStrategy[t.Any]) -> t.Any:
    spec = draw(specs)
    if draw(st.integers(0, 5)) == 5 and spec[0] not in ('struct', 'tup'):
        spec = ('union', 'Optional', (spec,))       # documents may then be null
    nd = tg.node(spec)
    v = tg.plainify(draw(nd.valid()))
    if draw(st.booleans()):
        v2 = spice(draw, v)
        if isinstance(nd.ref(v2), tg.Acc):
            v = v2
    fmt = draw(st.sampled_from(['json', 'yaml']))
    sink = draw(st.sampled_from(['stringio', 'path', 'strpath', 'file', 'method-string', 'method-stream']))
    opts: t.Dict[str, t.Any] = {}
    if fmt == 'json':
        if draw(st.booleans()):
            opts['indent'] = draw(st.sampled_from([0, 2, 4, '\t']))
        if draw(st.integers(0, 2)) == 2:
            opts['sort_keys'] = True
    else:
        if draw(st.booleans()):
            opts['indent'] = draw(st.sampled_from([2, 4, 8]))
        if draw(st.integers(0, 2)) == 2:
            opts['sort_keys'] = True
        if draw(st.booleans()):
            opts['default_flow_style'] = draw(st.sampled_from([True, False]))
        if draw(st.integers(0, 2)) == 2:
            opts['allow_unicode'] = False
        if draw(st.integers(0, 2)) == 2:
            opts['explicit_start'] = False
        if draw(st.integers(0, 2)) == 2:
            opts['explicit_end'] = True
    ndocs = draw(st.integers(0, 4)) if fmt == 'yaml' and draw(st.integers(0, 2)) == 2 else None
    return [spec, v, fmt, sink, opts, ndocs]


def render(case: t.Any) -> t.Any:
    (spec, v, fmt, sink, opts, ndocs) = case
    return {'type': tg.node(spec).render()[:300], 'value': short(v, 150), 'format': fmt, 'sink': sink, 'options': opts, 'yaml_all_docs': ndocs}


def sortable_keys(d: t.Any) -> bool:
    if isinstance(d, dict):
        return all(type(k) is str for k in d) and all(sortable_keys(x) for x in d.values())
    if isinstance(d, (list, tuple)):
        return all(sortable_keys(x) for x in d)
    return True


def non_ascii(d: t.Any) -> bool:
    if isinstance(d, str):
        return any(ord(c) > 127 or c == '\n' for c in d)
    if isinstance(d, dict):
        return any(non_ascii(k) or non_ascii(x) for (k, x) in d.items())
    if isinstance(d, (list, tuple)):
        return any(non_ascii(x) for x in d)
    return False


def check(case: t.Any, ctx: Ctx) -> None:
    import pane
    import yaml
    _hook_open()
    (spec, v, fmt, sink, opts, ndocs) = case
    nd = tg.node(spec)
    T = nd.pytype()
    is_cls = isinstance(nd, cg.ClsNode)
    if sink.startswith('method') and not is_cls:
        sink = 'stringio'
    elif is_cls and sink == 'stringio' and len(repr(v)) % 2 == 0:
        sink = 'method-string'       # dataclass roots: exercise the convenience methods about as often as the functions
    for n in nd.walk():
        if isinstance(n, cg.ClsNode) and not n.output_readable():
            ctx.exclude('dataclass output form not enabled on input')
            return
    (k, x) = outcome(lambda: pane.from_data(v, T))
    if k != 'ok':
        ctx.exclude('value not accepted')
        return
    (k, d) = outcome(lambda: pane.into_data(x, T))
    if k != 'ok' or not representable(d, fmt):
        ctx.exclude(f'serialised form not representable in {fmt}')
        return
    if opts.get('sort_keys') and not sortable_keys(d):
        opts = {k_: v_ for (k_, v_) in opts.items() if k_ != 'sort_keys'}
    # precondition: in-memory round trip (C05)
    (k, y0) = outcome(lambda: pane.from_data(d, T))
    SKIP_EXCLUDED[0] = True
    try:
        if k != 'ok' or same(y0, x) is not None:
            ctx.exclude('in-memory round trip does not hold (C05: ambiguous union / known finding)')
            return
        # what the format itself does to the data (tuples become lists, ...) must not matter after conversion
        ctx.label(f"fmt:{fmt}", f"sink:{sink}", *(f"opt:{o}" for o in opts))
        ctx.nontrivial(non_ascii(d) or bool(opts) or sink in ('path', 'strpath', 'file'))
        ident = f"T = {nd.render()[:300]}; x = {short(x, 120)}; format {fmt}, sink {sink}, options {opts}"
        writer = pane.write_json if fmt == 'json' else pane.write_yaml
        reader = pane.from_json if fmt == 'json' else pane.from_yaml
        path = os.path.join(_tmpdir(), f"f{os.getpid()}.{fmt}")
        del OPENED[:]
        text: t.Optional[str] = None

        def fail_exc(what: str, e: BaseException) -> bool:
            if isinstance(e, (yaml.YAMLError, UnicodeError)) or type(e).__module__.startswith('yaml'):
                ctx.exclude('PyYAML cannot emit / re-read this text')
                return True
            ctx.fail('io-roundtrip', f"{what}:{type(e).__name__}", f"{ident}; {what} raised {type(e).__name__}: {str(e)[:200]}")
            return True

        # ---- write ---------------------------------------------------------------------------------
        ctx.evaluated()
        if sink == 'stringio':
            buf = io.StringIO()
            (k, r) = outcome(lambda: writer(x, buf, ty=T, **opts))
            if k != 'ok':
                fail_exc('write', r)
                return
            if buf.closed:
                ctx.fail('stream-ownership', 'closed-callers-stream', f"{ident}; the caller's StringIO was closed by write_{fmt}")
                return
            text = buf.getvalue()
            if isinstance(nd, (tg.Enum, tg.Sub)):
                # ty= is optional: a value whose runtime type is T itself (an enum member, an instance of a scalar subclass) is
                # written the same without it - as plain interchange data, which every emitter can represent
                buf2 = io.StringIO()
                (k, r) = outcome(lambda: writer(x, buf2, **opts))
                if k != 'ok' or buf2.getvalue() != text:
                    ctx.fail('io-roundtrip', f"write-without-ty:{type(r).__name__ if k != 'ok' else 'other-text'}",
                             f"{ident}; write_{fmt}(x, stream) without ty= {'raised ' + type(r).__name__ + ': ' + str(r)[:150] if k != 'ok' else 'wrote ' + repr(buf2.getvalue()[:80])}; "
                             f"with ty=T it wrote {text[:80]!r}")
                    return
        elif sink in ('path', 'strpath'):
            target: t.Any = pathlib.Path(path) if sink == 'path' else path
            (k, r) = outcome(lambda: writer(x, target, ty=T, **opts))
            if k != 'ok':
                fail_exc('write', r)
                return
            if len(OPENED) != 1 or not OPENED[0][0].closed:
                ctx.fail('stream-ownership', 'file-left-open', f"{ident}; write_{fmt}(path) opened {len(OPENED)} file(s) and left {'one open' if OPENED and not OPENED[0][0].closed else 'none open'}")
                return
            if str(OPENED[0][1].get('encoding', '')).lower().replace('-', '') != 'utf8':
                ctx.fail('stream-ownership', 'not-utf8', f"{ident}; the file was opened with encoding={OPENED[0][1].get('encoding')!r}, not UTF-8")
                return
            raw = open(path, 'rb').read()
            try:
                text = raw.decode('utf-8')
            except UnicodeDecodeError:
                ctx.fail('stream-ownership', 'not-utf8', f"{ident}; the bytes written are not valid UTF-8")
                return
        elif sink == 'file':
            with open(path, 'w', encoding='utf-8', newline='') as fh:
                (k, r) = outcome(lambda: writer(x, fh, ty=T, **opts))
                if k != 'ok':
                    fail_exc('write', r)
                    return
                if fh.closed:
                    ctx.fail('stream-ownership', 'closed-callers-stream', f"{ident}; the caller's file object was closed by write_{fmt}")
                    return
            text = open(path, encoding='utf-8', newline='').read()
        elif sink == 'method-string':
            (k, r) = outcome(lambda: (x.write_json if fmt == 'json' else x.write_yaml)(**opts))
            if k != 'ok':
                fail_exc('write', r)
                return
            text = r
            buf = io.StringIO()
            (k2, _) = outcome(lambda: writer(x, buf, ty=T, **opts))
            if k2 == 'ok' and not buf.closed and buf.getvalue() != text:
                ctx.fail('methods-agree', f"write_{fmt}", f"{ident}; x.write_{fmt}() returns {text[:100]!r}, pane.write_{fmt} writes {buf.getvalue()[:100]!r}")
                return
        else:
            buf = io.StringIO()
            (k, r) = outcome(lambda: (x.write_json if fmt == 'json' else x.write_yaml)(buf, **opts))
            if k != 'ok':
                fail_exc('write', r)
                return
            if buf.closed:
                ctx.fail('stream-ownership', 'closed-callers-stream', f"{ident}; the caller's StringIO was closed by x.write_{fmt}(stream)")
                return
            text = buf.getvalue()
            buf2 = io.StringIO()
            (k2, _) = outcome(lambda: writer(x, buf2, ty=T, **opts))
            if k2 == 'ok' and not buf2.closed and buf2.getvalue() != text:
                ctx.fail('methods-agree', f"write_{fmt}", f"{ident}; x.write_{fmt}(stream) writes {text[:100]!r}, pane.write_{fmt} writes {buf2.getvalue()[:100]!r}")
                return
        if not isinstance(text, str):
            ctx.fail('io-roundtrip', 'no-text', f"{ident}; nothing was written / returned")
            return

        # ---- read back through every source kind -------------------------------------------------------
        with open(path, 'w', encoding='utf-8', newline='') as fh:
            fh.write(text)
        sources: t.List[t.Tuple[str, t.Callable[[], t.Any]]] = [
            ('stream', lambda: reader(io.StringIO(text), T)),
            ('Path', lambda: reader(pathlib.Path(path), T)),
            ('str path', lambda: reader(path, T)),
        ]
        # a caller's file that has been read from already (a header line consumed), and a text stream that is not an
        # io.IOBase instance (what tempfile.NamedTemporaryFile('w+') and codecs.open hand out): both are "text streams supplied by the caller"
        hdr_path = path + '.hdr'
        with open(hdr_path, 'w', encoding='utf-8', newline='') as fh:
            fh.write('header line\n' + text)

        def after_header() -> t.Any:
            with open(hdr_path, encoding='utf-8') as fh2:
                assert fh2.readline() == 'header line\n'
                out = reader(fh2, T)
                if fh2.closed:
                    raise AssertionError("the caller's file was closed")
                return out

        def temp_wrapper() -> t.Any:
            import tempfile
            with tempfile.NamedTemporaryFile('w+', encoding='utf-8', dir=_tmpdir()) as tf:
                tf.write(text)
                tf.seek(0)
                return reader(tf, T)
        sources.append(('file-after-header', after_header))
        sources.append(('tempfile-wrapper', temp_wrapper))
        if is_cls:
            sources.append(('classmethod string', lambda: (T.from_jsons if fmt == 'json' else T.from_yamls)(text)))
            sources.append(('classmethod stream', lambda: (T.from_json if fmt == 'json' else T.from_yaml)(io.StringIO(text))))
        for (what, f) in sources:
            del OPENED[:]
            ctx.evaluated()
            (k, y) = outcome(f)
            if k != 'ok':
                if fail_exc(f'read from {what}', y):
                    return
            diff = same(y, x)
            if diff is not None:
                ctx.fail('io-roundtrip', f"{fmt}:{what.split()[0]}", f"{ident}; written text {text[:150]!r}; read back from {what} as {short(y, 120)}: {diff}")
                return
            if what in ('Path', 'str path'):
                if len(OPENED) != 1 or not OPENED[0][0].closed:
                    ctx.fail('stream-ownership', 'file-left-open', f"{ident}; reading from a path left the file open (or opened {len(OPENED)} files)")
                    return
                if str(OPENED[0][1].get('encoding', '')).lower().replace('-', '') != 'utf8':
                    ctx.fail('stream-ownership', 'not-utf8', f"{ident}; the file was opened for reading with encoding={OPENED[0][1].get('encoding')!r}")
                    return
        caller = io.StringIO(text)
        (k, _) = outcome(lambda: reader(caller, T))
        if caller.closed:
            ctx.fail('stream-ownership', 'closed-callers-stream', f"{ident}; the caller's stream was closed by from_{fmt}")
            return

        # ---- multi-document YAML ------------------------------------------------------------------------
        if ndocs is not None and fmt == 'yaml':
            buf = io.StringIO()
            o2 = dict(opts, explicit_start=True)
            docs = [x] * ndocs
            (kn, xn) = outcome(lambda: pane.from_data(None, T))
            if kn == 'ok' and xn is None and ndocs >= 1:
                # the type admits null documents: put them in the middle and (for odd counts) at the end
                docs = [None if (i % 2 == 1 or (i == ndocs - 1 and ndocs % 2 == 1)) else x for i in range(ndocs)]
                ctx.label('yaml_all:null-documents')
            for xd in docs:
                (k, r) = outcome(lambda: pane.write_yaml(xd, buf, ty=T, **o2))
                if k != 'ok':
                    fail_exc('write', r)
                    return
                if buf.closed:
                    ctx.fail('stream-ownership', 'closed-callers-stream', f"{ident}; the caller's StringIO was closed by write_yaml")
                    return
            ctx.evaluated()
            ctx.label(f"yaml_all:{ndocs}")
            (k, ys) = outcome(lambda: pane.from_yaml_all(io.StringIO(buf.getvalue()), T))
            if k != 'ok':
                if fail_exc('from_yaml_all', ys):
                    return
            if not isinstance(ys, list) or len(ys) != ndocs or any(same(y, xd) is not None for (y, xd) in zip(ys, docs)):
                ctx.fail('yaml-all', f"docs:{ndocs}", f"{ident}; {ndocs} documents written ({short(docs, 100)}), from_yaml_all returned {short(ys, 150)}")
                return
            if is_cls and not any(f.name == 'from_yaml_all' for f in nd.fields):     # (a field of that name hides the classmethod)
                (k, ys2) = outcome(lambda: T.from_yaml_all(io.StringIO(buf.getvalue())))
                if k != 'ok' or len(ys2) != ndocs or any(same(y, xd) is not None for (y, xd) in zip(ys2, docs)):
                    ctx.fail('yaml-all', 'classmethod', f"{ident}; Cls.from_yaml_all disagrees: {short(ys2, 150)}")
    finally:
        SKIP_EXCLUDED[0] = False


# ---- from_yaml_all with an element type whose meaning depends on the order of its members ----------------------------------------
#
# "from_yaml_all returns one converted value per document" - converted as from_yaml converts one document: Union[date, str] reads
# '2024-02-29' as a date, Union[str, date] as text, whichever of the two (or a List of either) was written first in the program.

def order_cases(shard: int, nshards: int) -> t.Iterator[t.Any]:
    i = 0
    for pair in (('date', 'str'), ('str', 'date'), ('float', 'int'), ('int', 'float')):
        for rnd in range(2):
            if i % nshards == shard:
                yield [list(pair), rnd]
            i += 1


def check_yaml_all_order(case: t.Any, ctx: Ctx) -> None:
    import datetime
    import pane
    (pair, rnd) = case
    types_ = {'date': datetime.date, 'str': str, 'float': float, 'int': int}
    (a, b) = (types_[pair[0]], types_[pair[1]])
    t.List[t.Union[b, a]]        # type: ignore  # (the other order, in a List, exists somewhere in the program)
    T = t.Union[a, b]            # type: ignore
    if t.get_args(T) != (a, b):
        return       # (typing handed back the other spelling for the union itself: not pane's doing)
    docs = "--- 2024-02-29\n--- not a date\n" if 'date' in pair else "--- 1\n--- 2.5\n"
    ctx.label(f"order:{pair[0]},{pair[1]}")
    ctx.nontrivial(True)
    ctx.evaluated()
    if 'date' in pair:
        docs = '--- "2024-02-29"\n--- "not a date"\n'
    one = [outcome(lambda d=d: pane.from_yaml(io.StringIO(d), T)) for d in docs.split('--- ')[1:]]
    (k, many) = outcome(lambda: pane.from_yaml_all(io.StringIO(docs), T))
    want = [r for (_, r) in one]
    if any(k1 != 'ok' for (k1, _) in one):
        return
    if k != 'ok' or [type(x) for x in many] != [type(x) for x in want] or many != want:
        ctx.fail('yaml-all', f"element-type-member-order:{pair[0]},{pair[1]}", f"documents {docs!r} as Union[{pair[0]}, {pair[1]}] (List[Union[{pair[1]}, {pair[0]}]] exists): "
                 f"from_yaml, one document at a time, gives {want!r}; from_yaml_all gives {many!r}")


def suites(tier: str) -> t.List[Suite]:
    big = tier == 'thorough'
    leaves = 6 if big else 3
    # documents that are one scalar: enum members and instances of scalar subclasses at the root (written with and without ty=)
    roots = st.sampled_from([('enum', n) for n in ('SE', 'IE', 'IE0', 'SE0', 'FE0', 'IntE', 'StrE', 'MixedE')] + [('sub', n) for n in ('int', 'str', 'float')])
    S_ = ('s', 'str')
    texty = st.sampled_from([S_, ('seq', 'List', S_), ('map', 'Dict', S_, S_), ('union', 'Union', (('s', 'float'), S_)), ('s', 'any'),
                             ('struct', (('a', S_), ('b', ('seq', 'List', S_)))), ('seq', 'List', ('union', 'Union', (('s', 'int'), S_)))])
    from .. import cg
    texty = st.one_of(texty, cg.class_specs(st.sampled_from([S_, ('seq', 'List', S_), ('map', 'Dict', S_, S_)]), max_fields=3, hooks=False))
    return [Suite('io', check, strategy=lambda: cases(gen.all_type_specs(leaves)), examples=6000 if big else 500, budget_s=480 if big else 40, render=render),
            Suite('lookalike-strings', check, strategy=lambda: cases(texty), examples=1500 if big else 150, budget_s=90 if big else 15, render=render),
            Suite('yaml-all-member-order', check_yaml_all_order, cases=order_cases, exhaustive=True, budget_s=20, render=lambda c: {'members': c[0]}),
            Suite('scalar-documents', check, strategy=lambda: cases(roots), examples=600 if big else 60, budget_s=60 if big else 10, render=render)]
