"""
C15  Dataclass data layouts and field-name resolution.

For each generated class (all naming options: aliases, in_names, rename,
out_name, class rename / in_rename / out_rename in the five styles; all layout
options) the decision table is *enumerated*: every input name of every field,
near-miss names and other styles' spellings, two names of one field, unknown
keys with and without allow_extra, each required field absent, sequences of
every length 0..max+1, str / bytes / mapping where a sequence is expected and
the reverse, each layout disabled; and the output layout / names / exclusion.
Oracle: the class model computed from the spec (pv/cg.py).
"""

from __future__ import annotations

import typing as t

from hypothesis import strategies as st

from ..core import Suite, Ctx
from .. import tg, cg, gen
from ..same import same
from ..codec import short, MySeq, MyMap
from ..oracles import outcome
from .c05 import canon

ID = 'C15'
RULE = ("Hypothesis draws the class spec (naming x layout options) and one valid value per field; the check then enumerates that class's "
        "decision table (each input name, near misses, duplicates, unknown keys, each required field absent, every sequence length, wrong "
        "container kinds, disabled layouts, output layout and names). Non-trivial = a class with a non-default naming option, or a tuple-layout "
        "cell; distinct by (class spec, values).")
ASSUMPTIONS = [
    "the python field name as a key when other input names are configured is unspecified (field() docstring vs PaneConverter disagree)",
    "field values are valid for their types, so each cell isolates the name / layout decision",
]


@st.composite
def cases(draw, ftypes: st.SearchStrategy[t.Any]) -> t.Any:
    spec = draw(cg.class_specs(ftypes, max_fields=4, hooks=False))
    nd = cg.ClsNode(spec)
    vals = {}
    for f in nd.fields:
        for _ in range(5):
            v = tg.plainify(draw(f.node.valid()))
            if isinstance(f.node.ref(v), tg.Acc):
                break
        else:
            v = None
        vals[f.name] = v
    return [spec, vals]


def render(case: t.Any) -> t.Any:
    return {'class': cg.ClsNode(case[0]).render(), 'values': {k: short(v, 50) for (k, v) in case[1].items()}}


def _declining(ty: t.Any, args: t.Any, *, handlers: t.Any) -> t.Any:
    return NotImplemented


def check(case: t.Any, ctx: Ctx) -> None:
    import pane
    (spec, vals) = case
    nd = cg.ClsNode(spec)
    Cls = nd.pytype()
    for f in nd.fields:
        if not isinstance(f.node.ref(vals[f.name]), tg.Acc):
            ctx.exclude('no valid value found for a field')
            return
    naming = bool(set(nd.opts) & {'rename', 'in_rename', 'out_rename'}) or any(fs.get('naming') or fs.get('out_name') for fs in nd.cs['fields'])
    ctx.label('naming' if naming else 'plain-names', f"in:{'+'.join(nd.in_format)}", f"out:{nd.out_format}")
    ctx.nontrivial(naming or 'tuple' in nd.in_format)
    init = [f for f in nd.fields if f.init]
    ident = nd.render()[:600]

    def run(data: t.Any, what: str, klass: str) -> t.Optional[t.Tuple[str, t.Any]]:
        """Compare from_data(data) with the model; -> (kind, result) or None after reporting."""
        r = nd.ref(data)
        (k, got) = outcome(lambda: Cls.from_data(data))
        ctx.evaluated()
        # the same question through a second converter of the class (handlers that decline everything make a new one):
        # the tables of names and layouts belong to the class, not to the first converter built for it
        (k2, got2) = outcome(lambda: Cls.from_data(data, custom=[_declining]))
        if k2 != k or (k == 'ok' and same(got2, got) is not None):
            ctx.fail('layout-table', f"{klass}:second-converter", f"{ident}; {what}: data {short(data, 150)}: plain conversion {k} {short(got, 80)}, "
                     f"with custom=[a handler that declines] {k2} {short(got2, 80)}")
            return None
        if isinstance(r, tg.Unspec):
            ctx.exclude(r.why)
            return None
        if k == 'exc':
            ctx.fail('layout-table', f"{klass}:{type(got).__name__}", f"{ident}; {what}: data {short(data, 150)} raised {type(got).__name__}: {str(got)[:150]}")
            return None
        if isinstance(r, tg.Rej):
            if k == 'ok':
                ctx.fail('layout-table', f"{klass}:accepted", f"{ident}; {what}: data {short(data, 150)} must be rejected ({r.why}) but gave {short(got, 120)}")
                return None
        else:
            if k != 'ok':
                ctx.fail('layout-table', f"{klass}:refused", f"{ident}; {what}: data {short(data, 150)} must be accepted but: {str(got)[:200]}")
                return None
            d = same(got, r.image)
            if d is not None:
                ctx.fail('layout-table', f"{klass}:wrong-binding", f"{ident}; {what}: data {short(data, 150)} gave {short(got, 120)}: {d}")
                return None
        return (k, got)

    def base_mapping(skip: t.Optional[str] = None, names: t.Optional[t.Dict[str, str]] = None) -> t.Dict[str, t.Any]:
        d = {}
        for f in init:
            if f.name == skip:
                continue
            d[(names or {}).get(f.name, f.in_names[0])] = vals[f.name]
        return d

    # ---- mapping path ---------------------------------------------------------------------
    for f in init:
        for nm in f.in_names:
            run(base_mapping(names={f.name: nm}), f"field {f.name} addressed as {nm!r}", 'input-name')
        near = [f.name + 'x', f.name.upper() + '_', ' ' + f.name, *(cg.style_name(f.name, s) for s in cg.STYLES)]
        for nm in dict.fromkeys(near):
            if nm in nd.by_key and nd.by_key[nm][0] is f:
                continue   # a configured (or the unspecified python) name
            if nm in nd.by_key:
                continue   # names another field: that is the duplicate cell below
            data = base_mapping(skip=f.name)
            data[nm] = vals[f.name]
            run(data, f"field {f.name} addressed by the unconfigured name {nm!r}", 'unknown-name')
        if len(f.in_names) >= 2:
            data = base_mapping()
            data[f.in_names[1]] = vals[f.name]
            run(data, f"field {f.name} given twice ({f.in_names[0]!r} and {f.in_names[1]!r})", 'duplicate')
        if not f.has_default():
            run(base_mapping(skip=f.name), f"required field {f.name} absent", 'missing')
        else:
            run(base_mapping(skip=f.name), f"defaulted field {f.name} absent", 'defaulted-absent')
    data = base_mapping()
    data['zz_unknown'] = 1
    run(data, f"unknown key with allow_extra={nd.allow_extra}", 'extra')
    run(MyMap(base_mapping().items()), "a non-dict Mapping", 'mapping-kind')
    run(list(base_mapping().items()), "list of items instead of a mapping", 'kind-swap')

    # ---- sequence path --------------------------------------------------------------------
    seq_all = [vals[f.name] for f in nd.pos]
    for n in range(0, nd.max_len + 2):
        s = (seq_all + [0])[:n]
        run(s, f"sequence of length {n} (positional bounds {nd.min_len}-{nd.max_len})", 'length')
    run(tuple(seq_all), "a tuple", 'sequence-kind')
    run(MySeq(seq_all), "a non-list Sequence", 'sequence-kind')
    for s in ('', 'xy', b'xy', bytearray(b'x')):
        run(s, f"{type(s).__name__} where a sequence is expected", 'str-as-sequence')
    run({i: v for (i, v) in enumerate(seq_all)}, "mapping of positions instead of a sequence", 'kind-swap')
    for s in (None, 5, 1.5):
        run(s, "a scalar", 'scalar')

    # ---- output ---------------------------------------------------------------------------
    (k, x) = outcome(lambda: Cls.make_unchecked(**{f.name: cg.materialise(f.node.ref(vals[f.name]).image) for f in init}))
    if k != 'ok':
        return
    (k, d) = outcome(lambda: x.into_data())
    ctx.evaluated()
    if k != 'ok':
        ctx.fail('output-layout', type(d).__name__, f"{ident}; into_data() raised {type(d).__name__}: {str(d)[:150]}")
        return
    outs = nd.out_fields()
    want_vals = [pane.into_data(getattr(x, f.name), f.node.pytype()) for f in outs]
    if nd.out_format == 'struct':
        want: t.Any = {f.out_name: w for (f, w) in zip(outs, want_vals)}
        ok = isinstance(d, dict) and list(d) == list(want) and canon(d, False) == canon(want, False)
    else:
        want = tuple(want_vals)
        ok = isinstance(d, tuple) and canon(d, False) == canon(want, False)
    if not ok:
        ctx.fail('output-layout', nd.out_format, f"{ident}; into_data() = {short(d, 200)}, the configured layout / names / exclusions give {short(want, 200)}")


def suites(tier: str) -> t.List[Suite]:
    big = tier == 'thorough'
    ftypes = tg.type_specs(3 if big else 2)
    return [Suite('table', check, strategy=lambda: cases(ftypes), examples=3000 if big else 250, budget_s=480 if big else 40, render=render)]
