"""
C01  Conversion accepts exactly the members of the type and returns the typed value.

Oracle: the reference interpreter of pv/tg.py + pv/cg.py (three-valued).
    Acc(image)  -> from_data must return, and same(result, image)
    Rej         -> from_data must raise ConvertError
    Unspec      -> verdict counted, not asserted (DESIGN section 2)
    any verdict -> a returned value is shaped like an image of T at every depth (pv/typed.py): exactly int where int
                   is declared (not bool, a user subclass or an IntEnum member), list for List, tuple for Sequence, ...
Determinism: each case is evaluated a second time on a freshly built,
structurally equal type object and a deep copy of the value.
"""

from __future__ import annotations

import copy
import typing as t

from ..core import Suite, Ctx
from .. import tg, cg, gen
from ..same import same
from ..codec import short, clone
from ..typed import shape_error, base_value_error
from ..oracles import outcome, judge_conv, conv_disagreement, report

ID = 'C01'
RULE = ("Hypothesis: type spec from the full grammar (scalars, user subclasses, literals, enums, all container spellings, "
        "fixed/variadic tuples, mappings, struct/tuple literals, unions, Annotated, TypeVars, ValueOrList, numpy arrays, "
        "generated pane dataclasses incl. nested ones, tagged unions); value = a value built from the type, then 0-2 mutations "
        "at random depth (wrong kinds, look-alike strings, dropped/duplicated/extra keys and elements, container swaps), or "
        "arbitrary data (10%). Non-trivial = the type has depth >= 2 or a dataclass/union/annotated/tagged root, and the value "
        "is a container of the right general shape (so the verdict is decided below the root); distinct by (type spec, value).")
ASSUMPTIONS = [
    "the reference interpreter encodes the documented element-wise rules (docs/index.md, docs/using/*.md); cells the documents leave open are unspecified and not asserted",
    "stdlib constructors (Fraction, Decimal, fromisoformat, re.compile, PurePath) are trusted",
    "integers are bounded to 1000 digits; NDArray[...] and X | Y spellings are outside the domain",
]


def judge(ctx: Ctx, nd: tg.Node, r: tg.Verdict, out: t.Tuple[str, t.Any], v: t.Any, what: str) -> None:
    ctx.evaluated()
    res = judge_conv(nd, r, out, v, what)
    report(ctx, nd, v, res, lambda n, x: conv_disagreement(n, x) is not None)


def check(case: t.Any, ctx: Ctx) -> None:
    import pane
    from .. import refcheck
    refcheck.run()      # once per worker: the reference must agree with every example the repository's own tests pin
    (spec, v, how) = case[:3]
    nd = tg.node(spec)
    T = nd.pytype()
    r = nd.ref(v)
    verdict = type(r).__name__
    ctx.label(f"{verdict}:{how}", f"root:{nd.kind.split(':')[0]}", f"depth:{min(nd.depth(), 6)}")
    if isinstance(r, tg.Unspec):
        ctx.exclude(f"unspecified: {r.why}")
    shaped = (tg.is_seq(v) or tg.is_map(v)) and len(v) > 0
    ctx.nontrivial((nd.depth() >= 2 or nd.kind in ('dataclass', 'union', 'annotated', 'tagged')) and shaped and not isinstance(r, tg.Unspec))

    out1 = outcome(lambda: pane.from_data(v, T))
    judge(ctx, nd, r, out1, v, 'from_data')
    if out1[0] == 'ok':
        # whatever the verdict oracle says (also in its unspecified cells): a returned value is the exactly-typed image at every depth
        ctx.evaluated()
        d = shape_error(nd, out1[1]) or base_value_error(nd, v, out1[1])
        if d is not None:
            ctx.fail('exactly-typed', nd.kind, f"from_data({short(v, 200)}, {nd.render()[:300]}) returned {short(out1[1], 150)}: {d}")

    if nd.kind == 'dataclass':
        out_c = outcome(lambda: T.from_data(v))
        judge(ctx, nd, r, out_c, v, 'Cls.from_data')

    # determinism: fresh structurally-equal type object, deep copy of the value
    cg.FRESH[0] = True
    try:
        nd2 = tg.node(spec)
        T2 = nd2.pytype()
    finally:
        cg.FRESH[0] = False
    v2 = clone(v)
    r2 = nd2.ref(v2)
    out2 = outcome(lambda: pane.from_data(v2, T2))
    judge(ctx, nd2, r2, out2, v2, 'from_data[fresh type]')
    if out1[0] != out2[0]:
        ctx.fail('deterministic', nd.kind, f"from_data({short(v, 200)}, {nd.render()}): first outcome {out1[0]}, on a fresh equal type {out2[0]}")
    elif out1[0] == 'ok' and not any(x.kind in ('dataclass', 'tagged') for x in nd.walk()):
        d = same(out2[1], out1[1])
        if d is not None:
            ctx.fail('deterministic', nd.kind, f"from_data({short(v, 200)}, {nd.render()}) gave {short(out1[1], 150)} then {short(out2[1], 150)}: {d}")


def suites(tier: str) -> t.List[Suite]:
    big = tier == 'thorough'
    leaves = 8 if big else 4
    return [
        Suite('conv', check, strategy=lambda: gen.conv_cases(gen.all_type_specs(leaves)), examples=6000 if big else 500,
              budget_s=480 if big else 40, render=gen.render_case),
    ]
