"""
C01  Conversion accepts exactly the members of the type and returns the typed value.

Oracle: the reference interpreter of pv/tg.py + pv/cg.py (three-valued).
    Acc(image)  -> from_data must return, and same(result, image)
    Rej         -> from_data must raise ConvertError
    Unspec      -> verdict counted, not asserted (DESIGN section 2)
    any verdict -> a returned value is shaped like an image of T at every depth (pv/typed.py): exactly int where int
                   is declared (not bool, a user subclass or an IntEnum member), list for List, tuple for Sequence, ...
Determinism: each case is evaluated a second time on a freshly built,
structurally equal type object and a deep copy of the value.
"""

from __future__ import annotations

import copy
import typing as t

from hypothesis import strategies as st

from ..core import Suite, Ctx
from .. import tg, cg, gen
from ..same import same
from ..codec import short, clone
from ..typed import shape_error, base_value_error
from ..oracles import outcome, judge_conv, conv_disagreement, report

ID = 'C01'
RULE = ("Hypothesis: type spec from the full grammar (scalars, user subclasses, literals, enums, all container spellings, "
        "fixed/variadic tuples, mappings, struct/tuple literals, unions, Annotated, TypeVars, ValueOrList, numpy arrays, "
        "generated pane dataclasses incl. nested ones, tagged unions); value = a value built from the type, then 0-2 mutations "
        "at random depth (wrong kinds, look-alike strings, dropped/duplicated/extra keys and elements, container swaps), or "
        "arbitrary data (10%). Non-trivial = the type has depth >= 2 or a dataclass/union/annotated/tagged root, and the value "
        "is a container of the right general shape (so the verdict is decided below the root); distinct by (type spec, value).")
ASSUMPTIONS = [
    "the reference interpreter encodes the documented element-wise rules (docs/index.md, docs/using/*.md); cells the documents leave open are unspecified and not asserted",
    "stdlib constructors (Fraction, Decimal, fromisoformat, re.compile, PurePath) are trusted",
    "integers are bounded to 1000 digits; NDArray[...] and X | Y spellings are outside the domain",
]


def judge(ctx: Ctx, nd: tg.Node, r: tg.Verdict, out: t.Tuple[str, t.Any], v: t.Any, what: str) -> None:
    ctx.evaluated()
    res = judge_conv(nd, r, out, v, what)
    report(ctx, nd, v, res, lambda n, x: conv_disagreement(n, x) is not None)


def check(case: t.Any, ctx: Ctx) -> None:
    import pane
    from .. import refcheck
    refcheck.run()      # once per worker: the reference must agree with every example the repository's own tests pin
    (spec, v, how) = case[:3]
    nd = tg.node(spec)
    T = nd.pytype()
    r = nd.ref(v)
    verdict = type(r).__name__
    ctx.label(f"{verdict}:{how}", f"root:{nd.kind.split(':')[0]}", f"depth:{min(nd.depth(), 6)}")
    if isinstance(r, tg.Unspec):
        ctx.exclude(f"unspecified: {r.why}")
    shaped = (tg.is_seq(v) or tg.is_map(v)) and len(v) > 0
    ctx.nontrivial((nd.depth() >= 2 or nd.kind in ('dataclass', 'union', 'annotated', 'tagged')) and shaped and not isinstance(r, tg.Unspec))

    out1 = outcome(lambda: pane.from_data(v, T))
    judge(ctx, nd, r, out1, v, 'from_data')
    if out1[0] == 'ok':
        # whatever the verdict oracle says (also in its unspecified cells): a returned value is the exactly-typed image at every depth
        ctx.evaluated()
        d = shape_error(nd, out1[1]) or base_value_error(nd, v, out1[1])
        if d is not None:
            ctx.fail('exactly-typed', nd.kind, f"from_data({short(v, 200)}, {nd.render()[:300]}) returned {short(out1[1], 150)}: {d}")

    if how == 'subclassed':
        # the same through convert() (serialise, then read): the plain value the instance carries, not what its __str__ prints
        out_v = outcome(lambda: pane.convert(v, T))
        ctx.evaluated()
        if out_v[0] == 'ok':
            d = base_value_error(nd, v, out_v[1])
            if d is not None:
                ctx.fail('exactly-typed', f"convert:{nd.kind}", f"convert({short(v, 200)}, {nd.render()[:300]}) returned {short(out_v[1], 150)}: {d}")
    if nd.kind == 'dataclass':
        out_c = outcome(lambda: T.from_data(v))
        judge(ctx, nd, r, out_c, v, 'Cls.from_data')

    # determinism: fresh structurally-equal type object, deep copy of the value
    cg.FRESH[0] = True
    try:
        nd2 = tg.node(spec)
        T2 = nd2.pytype()
    finally:
        cg.FRESH[0] = False
    v2 = clone(v)
    r2 = nd2.ref(v2)
    out2 = outcome(lambda: pane.from_data(v2, T2))
    judge(ctx, nd2, r2, out2, v2, 'from_data[fresh type]')
    if out1[0] != out2[0]:
        ctx.fail('deterministic', nd.kind, f"from_data({short(v, 200)}, {nd.render()}): first outcome {out1[0]}, on a fresh equal type {out2[0]}")
    elif out1[0] == 'ok' and not any(x.kind in ('dataclass', 'tagged') for x in nd.walk()):
        d = same(out2[1], out1[1])
        if d is not None:
            ctx.fail('deterministic', nd.kind, f"from_data({short(v, 200)}, {nd.render()}) gave {short(out1[1], 150)} then {short(out2[1], 150)}: {d}")


# ---- generic dataclasses that inherit several type parameters ---------------------------------------------------------------
#
# "annotated and generic forms": Named[int, str] for class Named(Pair) (Pair generic in K, V, not re-listed) binds int to K and
# str to V, in the declared order - whatever the addresses of the TypeVar objects happen to be (fresh ones are made per case).

@st.composite
def generic_cases(draw) -> t.Any:
    return [draw(st.sampled_from(['plain', 'forward', 'extra-param', 'sibling'])), draw(st.permutations(['int', 'str', 'float']))[:2], draw(st.integers(0, 9))]


def check_generic(case: t.Any, ctx: Ctx) -> None:
    import pane
    import types as _types
    (shape, (ka, va), salt) = case
    types_ = {'int': (int, 5, 'x'), 'str': (str, 's', 5), 'float': (float, 1.5, 'x')}
    junk = [t.TypeVar(f'J{i}') for i in range(salt)]      # shift allocation around
    (K, V, W) = (t.TypeVar('K'), t.TypeVar('V'), t.TypeVar('W'))
    del junk
    Pair = _types.new_class('Pair', (pane.PaneBase, t.Generic[K, V]), {}, lambda ns: ns.update({'__annotations__': {'key': K, 'value': V}}))
    if shape == 'plain':
        Named = _types.new_class('Named', (Pair,), {}, lambda ns: ns.update({'__annotations__': {'name': str}, 'name': ''}))
        args = (types_[ka][0], types_[va][0])
    elif shape == 'forward':
        Named = _types.new_class('Named', (Pair[K, V],), {}, lambda ns: ns.update({'__annotations__': {'name': str}, 'name': ''}))
        args = (types_[ka][0], types_[va][0])
    elif shape == 'extra-param':
        Named = _types.new_class('Named', (Pair, t.Generic[W]), {}, lambda ns: ns.update({'__annotations__': {'name': W}, 'name': None}))
        args = (type(None), types_[ka][0], types_[va][0])
    else:
        Side = _types.new_class('Side', (pane.PaneBase, t.Generic[W]), {}, lambda ns: ns.update({'__annotations__': {'name': W}, 'name': pane.field(default=None, kw_only=True)}))
        Named = _types.new_class('Named', (Pair, Side), {}, lambda ns: ns.update({'__annotations__': {}}))
        args = (types_[ka][0], types_[va][0], type(None))
    ctx.label(f"generic-inherit:{shape}")
    ctx.nontrivial(True)
    ctx.evaluated()
    (kt, T) = outcome(lambda: Named[args])
    ident = f"class Pair(PaneBase, Generic[K, V]): key: K; value: V; Named = {shape}; Named[{', '.join(getattr(a, '__name__', str(a)) for a in args)}]"
    if kt != 'ok':
        ctx.fail('accepts-members', 'generic-inherit:subscription', f"{ident} raised {type(T).__name__}: {T}")
        return
    good = {'key': types_[ka][1], 'value': types_[va][1]}
    swapped = {'key': types_[va][1], 'value': types_[ka][1]}
    (k1, r1) = outcome(lambda: pane.from_data(good, T))
    (k2, r2) = outcome(lambda: pane.from_data(swapped, T))
    if k1 != 'ok' or r1.key != good['key'] or r1.value != good['value']:
        ctx.fail('accepts-members', 'generic-inherit', f"{ident}: {good!r} is a member but: {k1} {short(r1, 120)}")
    elif k2 == 'ok' and not (ka == 'float' and va == 'int') and not (va == 'float' and ka == 'int'):
        ctx.fail('rejects-non-members', 'generic-inherit', f"{ident}: {swapped!r} has its values the wrong way round but was accepted as {short(r2, 120)}")


# ---- named tuples ---------------------------------------------------------------------------------------------------------------
#
# A typing.NamedTuple / collections.namedtuple class is a tuple type with one slot per field (of the annotated type; any value where
# there is no annotation): sequences of that length whose items are accepted slot by slot, nothing else; the result is an instance
# of the class holding the converted items; into_data gives them back.

_NT: t.Dict[str, t.Any] = {}
_NT_VALUES = [[1, 'a'], (2, 'b'), [1], [-1], [0], ['a'], [None], [1.5], [True], [1, 'a', 3], [], ['a', 1], [[1], 'a'], 'ab', {'a': 1, 'b': 'x'}, None, 5, [1, 2], [1, None]]


def _nt_classes() -> t.Dict[str, t.Any]:
    if not _NT:
        import collections
        _NT['Pt'] = t.NamedTuple('Pt', [('a', int), ('b', str)])
        _NT['One'] = t.NamedTuple('One', [('x', int)])
        _NT['Opt'] = t.NamedTuple('Opt', [('a', int), ('b', t.Optional[str])])
        _NT['Plain'] = collections.namedtuple('Plain', ['p', 'q'])
        import pane.annotations as _A
        _NT['Cond'] = t.NamedTuple('Cond', [('x', t.Annotated[int, _A.Positive])])      # a slot type carrying a condition
        # a subclass that only adds behaviour: its fields (and their types) are the inherited ones
        _NT['PtSub'] = type('PtSub', (_NT['Pt'],), {'__slots__': (), 'norm': lambda self: abs(self.a)})
    return _NT


def nt_cases(shard: int, nshards: int) -> t.Iterator[t.Any]:
    i = 0
    for name in ('Pt', 'One', 'Opt', 'Plain', 'PtSub', 'Cond'):
        for wrap in ('bare', 'List', 'field'):
            for vi in range(len(_NT_VALUES)):
                if i % nshards == shard:
                    yield [name, wrap, vi]
                i += 1


def check_namedtuple(case: t.Any, ctx: Ctx) -> None:
    import pane
    (name, wrap, vi) = case
    cls = _nt_classes()[name]
    v = _NT_VALUES[vi]
    slots = {'Pt': [int, str], 'PtSub': [int, str], 'One': [int], 'Cond': [int], 'Opt': [int, (str, type(None))], 'Plain': [object, object]}[name]
    ok = isinstance(v, (list, tuple)) and len(v) == len(slots) and all(
        (s is object) or (type(x) in (s if isinstance(s, tuple) else (s,))) for (s, x) in zip(slots, v))
    if name == 'Cond' and ok:
        ok = v[0] > 0
    unspec = isinstance(v, (list, tuple)) and len(v) == len(slots) and any(type(x) is bool and s is int for (s, x) in zip(slots, v))
    ctx.label(f"nt:{name}", wrap, 'accept' if ok else 'reject')
    ctx.nontrivial(True)
    if unspec:
        ctx.exclude('unspecified: bool given to a numeric target')
        return
    if wrap == 'bare':
        (T, data, get) = (cls, v, lambda r: r)
    elif wrap == 'List':
        (T, data, get) = (t.List[cls], [v], lambda r: r[0])
    else:
        if ('H', name) not in _NT:
            _NT[('H', name)] = type('NtHolder', (pane.PaneBase,), {'__annotations__': {'p': cls}})
        (T, data, get) = (_NT[('H', name)], {'p': v}, lambda r: r.p)
    ctx.evaluated()
    (k, r) = outcome(lambda: pane.from_data(data, T))
    ident = f"{name}{tuple(getattr(cls, '__annotations__', {}).items()) or cls._fields} ({wrap}) given {short(v, 60)}"
    if ok:
        if k != 'ok':
            ctx.fail('verdict', 'namedtuple:refused', f"{ident}: every item is accepted by its slot, but {type(r).__name__}: {str(r)[:200]}")
            return
        x = get(r)
        if type(x) is not cls or tuple(x) != tuple(v):
            ctx.fail('exactly-typed', 'namedtuple', f"{ident}: returned {short(x, 100)} (a {type(x).__name__}), expected {cls(*v)!r}")
            return
        (k2, d) = outcome(lambda: pane.into_data(x, cls))
        if k2 != 'ok' or list(d) != list(v):
            ctx.fail('exactly-typed', 'namedtuple:into_data', f"{ident}: into_data of the result gives {short(d, 100)}")
    elif k == 'ok':
        ctx.fail('verdict', 'namedtuple:accepted', f"{ident}: not a sequence of {len(slots)} items accepted slot by slot, but {short(get(r), 100)} was returned")
    elif k != 'ce':
        ctx.fail('unexpected-exception', f"namedtuple:{type(r).__name__}", f"{ident}: {type(r).__name__}: {str(r)[:200]}")


# ---- date / time objects given as data (what a YAML timestamp is when it arrives) --------------------------------------------------
#
# A datetime narrows to a date or a time by taking that part of it - *all* of that part: the time of an aware datetime keeps
# its UTC offset ("2001-12-14t21:59:43-05:00" read as a time is 21:59:43-05:00, as the text '21:59:43-05:00' is).

def temporal_cases(shard: int, nshards: int) -> t.Iterator[t.Any]:
    i = 0
    for target in ('date', 'time', 'datetime'):
        for vi in range(6):
            for where in ('List', 'Dict', 'yaml'):
                if i % nshards == shard:
                    yield [target, vi, where]
                i += 1


def check_temporal(case: t.Any, ctx: Ctx) -> None:
    import pane
    import datetime as D
    import io as _io
    (target, vi, where) = case
    tz = D.timezone(D.timedelta(hours=-5))
    vals = [D.datetime(2001, 12, 14, 21, 59, 43, tzinfo=tz), D.datetime(2001, 12, 14, 21, 59, 43), D.datetime(2020, 2, 29, 0, 0, 0, 5, tzinfo=D.timezone.utc),
            D.date(2020, 1, 2), D.time(1, 2, 3, tzinfo=tz), D.time(23, 59)]
    v = vals[vi]
    T = {'date': D.date, 'time': D.time, 'datetime': D.datetime}[target]
    ctx.label(f"{type(v).__name__}->{target}", where)
    ctx.nontrivial(type(v) is not T)
    if where == 'yaml':
        if type(v) is D.time:
            return         # (YAML has no time-of-day scalar)
        doc = v.isoformat()
        (k, r) = outcome(lambda: pane.from_yaml(_io.StringIO(doc), T))
    elif where == 'List':
        (k, r) = outcome(lambda: pane.from_data([v], t.List[T]))
        r = r[0] if k == 'ok' else r
    else:
        (k, r) = outcome(lambda: pane.from_data({'k': v}, t.Dict[str, T]))
        r = r['k'] if k == 'ok' else r
    ctx.evaluated()
    if type(v) is D.datetime:
        want = {'date': v.date(), 'time': v.timetz(), 'datetime': v}[target]
    elif type(v) is T:
        want = v
    else:
        return       # (date -> datetime, time -> date, ...: not this check's subject)
    if k != 'ok':
        ctx.fail('verdict', f"temporal:{type(v).__name__}->{target}:refused", f"{v!r} given as data ({where}) to {target}: {type(r).__name__}: {str(r)[:150]}; expected {want!r}")
    elif type(r) is not T or r != want or getattr(r, 'tzinfo', None) != getattr(want, 'tzinfo', None):
        ctx.fail('exactly-typed', f"temporal:{type(v).__name__}->{target}", f"{v!r} given as data ({where}) to {target} gave {r!r}; that part of it is {want!r}")


def suites(tier: str) -> t.List[Suite]:
    big = tier == 'thorough'
    leaves = 8 if big else 4
    return [
        Suite('conv', check, strategy=lambda: gen.conv_cases(gen.all_type_specs(leaves)), examples=6000 if big else 500,
              budget_s=480 if big else 40, render=gen.render_case),
        Suite('subclass-inputs', check, strategy=lambda: gen.subclassed_cases(gen.all_type_specs(3, with_classes=False)), examples=2000 if big else 150,
              budget_s=120 if big else 15, render=gen.render_case),
        Suite('namedtuple', check_namedtuple, cases=nt_cases, exhaustive=True, budget_s=60,
              render=lambda c: {'class': c[0], 'position': c[1], 'value': short(_NT_VALUES[c[2]], 60)}),
        Suite('temporal-objects', check_temporal, cases=temporal_cases, exhaustive=True, budget_s=30,
              render=lambda c: {'target': c[0], 'value index': c[1], 'where': c[2]}),
        Suite('generic-inherit', check_generic, strategy=generic_cases, examples=300 if big else 30, budget_s=60 if big else 10,
              render=lambda c: {'shape': c[0], 'arguments': c[1]}),
    ]
