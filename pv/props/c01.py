"""
C01  Conversion accepts exactly the members of the type and returns the typed value.

Oracle: the reference interpreter of pv/tg.py + pv/cg.py (three-valued).
    Acc(image)  -> from_data must return, and same(result, image)
    Rej         -> from_data must raise ConvertError
    Unspec      -> verdict counted, not asserted (DESIGN section 2)
    any verdict -> a returned value is shaped like an image of T at every depth (pv/typed.py): exactly int where int
                   is declared (not bool, a user subclass or an IntEnum member), list for List, tuple for Sequence, ...
Determinism: each case is evaluated a second time on a freshly built,
structurally equal type object and a deep copy of the value.
"""

from __future__ import annotations

import copy
import typing as t

from hypothesis import strategies as st

from ..core import Suite, Ctx
from .. import tg, cg, gen
from ..same import same
from ..codec import short, clone
from ..typed import shape_error, base_value_error
from ..oracles import outcome, judge_conv, conv_disagreement, report

ID = 'C01'
RULE = ("Hypothesis: type spec from the full grammar (scalars, user subclasses, literals, enums, all container spellings, "
        "fixed/variadic tuples, mappings, struct/tuple literals, unions, Annotated, TypeVars, ValueOrList, numpy arrays, "
        "generated pane dataclasses incl. nested ones, tagged unions); value = a value built from the type, then 0-2 mutations "
        "at random depth (wrong kinds, look-alike strings, dropped/duplicated/extra keys and elements, container swaps), or "
        "arbitrary data (10%). Non-trivial = the type has depth >= 2 or a dataclass/union/annotated/tagged root, and the value "
        "is a container of the right general shape (so the verdict is decided below the root); distinct by (type spec, value).")
ASSUMPTIONS = [
    "the reference interpreter encodes the documented element-wise rules (docs/index.md, docs/using/*.md); cells the documents leave open are unspecified and not asserted",
    "stdlib constructors (Fraction, Decimal, fromisoformat, re.compile, PurePath) are trusted",
    "integers are bounded to 1000 digits; NDArray[...] and X | Y spellings are outside the domain",
]


def judge(ctx: Ctx, nd: tg.Node, r: tg.Verdict, out: t.Tuple[str, t.Any], v: t.Any, what: str) -> None:
    ctx.evaluated()
    res = judge_conv(nd, r, out, v, what)
    report(ctx, nd, v, res, lambda n, x: conv_disagreement(n, x) is not None)


def check(case: t.Any, ctx: Ctx) -> None:
    import pane
    from .. import refcheck
    refcheck.run()      # once per worker: the reference must agree with every example the repository's own tests pin
    (spec, v, how) = case[:3]
    nd = tg.node(spec)
    T = nd.pytype()
    r = nd.ref(v)
    verdict = type(r).__name__
    ctx.label(f"{verdict}:{how}", f"root:{nd.kind.split(':')[0]}", f"depth:{min(nd.depth(), 6)}")
    if isinstance(r, tg.Unspec):
        ctx.exclude(f"unspecified: {r.why}")
    shaped = (tg.is_seq(v) or tg.is_map(v)) and len(v) > 0
    ctx.nontrivial((nd.depth() >= 2 or nd.kind in ('dataclass', 'union', 'annotated', 'tagged')) and shaped and not isinstance(r, tg.Unspec))

    out1 = outcome(lambda: pane.from_data(v, T))
    judge(ctx, nd, r, out1, v, 'from_data')
    if out1[0] == 'ok':
        # whatever the verdict oracle says (also in its unspecified cells): a returned value is the exactly-typed image at every depth
        ctx.evaluated()
        d = shape_error(nd, out1[1]) or base_value_error(nd, v, out1[1])
        if d is not None:
            ctx.fail('exactly-typed', nd.kind, f"from_data({short(v, 200)}, {nd.render()[:300]}) returned {short(out1[1], 150)}: {d}")

    if how == 'subclassed':
        # the same through convert() (serialise, then read): the plain value the instance carries, not what its __str__ prints
        out_v = outcome(lambda: pane.convert(v, T))
        ctx.evaluated()
        if out_v[0] == 'ok':
            d = base_value_error(nd, v, out_v[1])
            if d is not None:
                ctx.fail('exactly-typed', f"convert:{nd.kind}", f"convert({short(v, 200)}, {nd.render()[:300]}) returned {short(out_v[1], 150)}: {d}")
    if nd.kind == 'dataclass':
        out_c = outcome(lambda: T.from_data(v))
        judge(ctx, nd, r, out_c, v, 'Cls.from_data')

    # determinism: fresh structurally-equal type object, deep copy of the value
    cg.FRESH[0] = True
    try:
        nd2 = tg.node(spec)
        T2 = nd2.pytype()
    finally:
        cg.FRESH[0] = False
    v2 = clone(v)
    r2 = nd2.ref(v2)
    out2 = outcome(lambda: pane.from_data(v2, T2))
    judge(ctx, nd2, r2, out2, v2, 'from_data[fresh type]')
    if out1[0] != out2[0]:
        ctx.fail('deterministic', nd.kind, f"from_data({short(v, 200)}, {nd.render()}): first outcome {out1[0]}, on a fresh equal type {out2[0]}")
    elif out1[0] == 'ok' and not any(x.kind in ('dataclass', 'tagged') for x in nd.walk()):
        d = same(out2[1], out1[1])
        if d is not None:
            ctx.fail('deterministic', nd.kind, f"from_data({short(v, 200)}, {nd.render()}) gave {short(out1[1], 150)} then {short(out2[1], 150)}: {d}")


# ---- generic dataclasses that inherit several type parameters ---------------------------------------------------------------
#
# "annotated and generic forms": Named[int, str] for class Named(Pair) (Pair generic in K, V, not re-listed) binds int to K and
# str to V, in the declared order - whatever the addresses of the TypeVar objects happen to be (fresh ones are made per case).

@st.composite
def generic_cases(draw) -> t.Any:
    return [draw(st.sampled_from(['plain', 'forward', 'extra-param', 'sibling'])), draw(st.permutations(['int', 'str', 'float']))[:2], draw(st.integers(0, 9))]


def check_generic(case: t.Any, ctx: Ctx) -> None:
    import pane
    import types as _types
    (shape, (ka, va), salt) = case
    types_ = {'int': (int, 5, 'x'), 'str': (str, 's', 5), 'float': (float, 1.5, 'x')}
    junk = [t.TypeVar(f'J{i}') for i in range(salt)]      # shift allocation around
    (K, V, W) = (t.TypeVar('K'), t.TypeVar('V'), t.TypeVar('W'))
    del junk
    Pair = _types.new_class('Pair', (pane.PaneBase, t.Generic[K, V]), {}, lambda ns: ns.update({'__annotations__': {'key': K, 'value': V}}))
    if shape == 'plain':
        Named = _types.new_class('Named', (Pair,), {}, lambda ns: ns.update({'__annotations__': {'name': str}, 'name': ''}))
        args = (types_[ka][0], types_[va][0])
    elif shape == 'forward':
        Named = _types.new_class('Named', (Pair[K, V],), {}, lambda ns: ns.update({'__annotations__': {'name': str}, 'name': ''}))
        args = (types_[ka][0], types_[va][0])
    elif shape == 'extra-param':
        Named = _types.new_class('Named', (Pair, t.Generic[W]), {}, lambda ns: ns.update({'__annotations__': {'name': W}, 'name': None}))
        args = (type(None), types_[ka][0], types_[va][0])
    else:
        Side = _types.new_class('Side', (pane.PaneBase, t.Generic[W]), {}, lambda ns: ns.update({'__annotations__': {'name': W}, 'name': pane.field(default=None, kw_only=True)}))
        Named = _types.new_class('Named', (Pair, Side), {}, lambda ns: ns.update({'__annotations__': {}}))
        args = (types_[ka][0], types_[va][0], type(None))
    ctx.label(f"generic-inherit:{shape}")
    ctx.nontrivial(True)
    ctx.evaluated()
    (kt, T) = outcome(lambda: Named[args])
    ident = f"class Pair(PaneBase, Generic[K, V]): key: K; value: V; Named = {shape}; Named[{', '.join(getattr(a, '__name__', str(a)) for a in args)}]"
    if kt != 'ok':
        ctx.fail('accepts-members', 'generic-inherit:subscription', f"{ident} raised {type(T).__name__}: {T}")
        return
    good = {'key': types_[ka][1], 'value': types_[va][1]}
    swapped = {'key': types_[va][1], 'value': types_[ka][1]}
    (k1, r1) = outcome(lambda: pane.from_data(good, T))
    (k2, r2) = outcome(lambda: pane.from_data(swapped, T))
    if k1 != 'ok' or r1.key != good['key'] or r1.value != good['value']:
        ctx.fail('accepts-members', 'generic-inherit', f"{ident}: {good!r} is a member but: {k1} {short(r1, 120)}")
    elif k2 == 'ok' and not (ka == 'float' and va == 'int') and not (va == 'float' and ka == 'int'):
        ctx.fail('rejects-non-members', 'generic-inherit', f"{ident}: {swapped!r} has its values the wrong way round but was accepted as {short(r2, 120)}")


def suites(tier: str) -> t.List[Suite]:
    big = tier == 'thorough'
    leaves = 8 if big else 4
    return [
        Suite('conv', check, strategy=lambda: gen.conv_cases(gen.all_type_specs(leaves)), examples=6000 if big else 500,
              budget_s=480 if big else 40, render=gen.render_case),
        Suite('subclass-inputs', check, strategy=lambda: gen.subclassed_cases(gen.all_type_specs(3, with_classes=False)), examples=2000 if big else 150,
              budget_s=120 if big else 15, render=gen.render_case),
        Suite('generic-inherit', check_generic, strategy=generic_cases, examples=300 if big else 30, budget_s=60 if big else 10,
              render=lambda c: {'shape': c[0], 'arguments': c[1]}),
    ]
