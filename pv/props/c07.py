"""
C07  Error trees localise failures compositionally.

For a rejected (T, v) the tree pane reports is compared, by structural
induction over the type grammar, with what the *parts* report on their own
(metamorphic: the implementation on each element) and with the reference
model for which keys are children / missing / extra:

  product nodes   children are keyed by exactly the positions / keys whose element
                  from_data(v_i, T_i) rejects on its own, child == that call's tree;
                  missing == absent required fields, extra == unknown keys
  unions          a SumErrorNode with one child per (flattened, de-duplicated) member in
                  declaration order, child i == member i's own tree
  tagged unions   a body error equals the selected variant's own tree for the body
  leaves          record the offending sub-value itself
"""

from __future__ import annotations

import typing as t

from hypothesis import strategies as st

from ..core import Suite, Ctx
from .. import tg, cg, gen
from ..same import same
from ..codec import short
from ..errtree import own_tree, tree_eq, union_members, tree_stats, contains_itself

ID = 'C07'
RULE = ("Hypothesis: full type grammar x a value built from the type and then hit by 1-4 mutations (several bad elements, missing + extra + "
        "duplicate keys at once, every union member failing for its own reason); only rejected values are judged. The tree is checked by "
        "structural induction down to depth 6. Non-trivial = at least two failing positions, or a failure under a union, or "
        "missing/extra/duplicate present; distinct by (type spec, value).")
ASSUMPTIONS = [
    "homogeneous-mapping children are keyed by the key itself, whatever its kind (keys that merely print alike - None and 'None' - are different children)",
    "the python field name used as a key when other input names are configured is an unspecified cell",
    "element trees are obtained from pane itself (from_data on the element): this check is about composition, C01 is about verdicts",
]


class _Skip(Exception):
    pass


class _KeyAndValue(Exception):
    """A mapping entry whose key and value are both rejected on their own: one child slot, two failures (known finding D41)."""


def expect_product(tr: t.Any, children: t.Dict[t.Any, t.Any], missing: t.Set[str], extra: t.Set[t.Any], where: str) -> t.Optional[str]:
    from pane.errors import ProductErrorNode
    if not isinstance(tr, ProductErrorNode):
        return f"{where}: expected a product node with children {sorted(map(repr, children))}, missing {sorted(missing)}, extra {sorted(map(repr, extra))}; got {type(tr).__name__}: {short(tr, 200)}"
    if set(tr.children) != set(children):
        return f"{where}: children keyed by {sorted(map(repr, tr.children))} but the elements failing on their own are {sorted(map(repr, children))}"
    if set(tr.missing) != set(missing):
        return f"{where}: missing = {sorted(map(repr, tr.missing))}, absent required fields are {sorted(missing)}"
    if set(tr.extra) != set(extra):
        return f"{where}: extra = {sorted(map(repr, tr.extra))}, unknown keys are {sorted(map(repr, extra))}"
    for (k, sub) in children.items():
        d = tree_eq(tr.children[k], sub)
        if d is not None:
            return f"{where}.{k}: child differs from the element's own tree: {d}"
    return None


def check_node(nd: tg.Node, v: t.Any, tr: t.Any, ctx: Ctx, depth: int = 0, where: str = '$') -> t.Optional[t.Tuple[str, str]]:
    """-> (kind of node blamed, message) on the first violation below (nd, v), whose own tree is ``tr``."""
    from pane.errors import ProductErrorNode, SumErrorNode, WrongTypeError, WrongLenError, ConditionFailedError, DuplicateKeyError
    if depth > 6 or tr is None:
        return None
    ctx.evaluated()

    def recurse(pairs: t.List[t.Tuple[tg.Node, t.Any, t.Any, str]]) -> t.Optional[t.Tuple[str, str]]:
        for (n, x, sub, w) in pairs:
            r = check_node(n, x, sub, ctx, depth + 1, w)
            if r is not None:
                return r
        return None

    def leaf_actual(expected_actual: t.Any) -> t.Optional[t.Tuple[str, str]]:
        if isinstance(tr, (WrongTypeError, ConditionFailedError, WrongLenError)):
            (a_, e_) = (tr.actual, expected_actual)
            if tg.is_map(a_) and tg.is_map(e_):
                # a converter may hand on a dict copy of a mapping (tag stripping): same content is the same sub-value
                (a_, e_) = (dict(a_.items()), dict(e_.items()))
            if same(a_, e_) is not None:
                return (nd.kind, f"{where}: leaf records actual={short(tr.actual, 100)} but the offending sub-value is {short(expected_actual, 100)}")
        return None

    if isinstance(nd, (tg.Seq, tg.Tup)):
        ok_shape = tg.is_seq(v) and (not isinstance(nd, tg.Tup) or len(v) == len(nd.elems))
        if not ok_shape:
            return leaf_actual(v)
        elems = [nd.elem] * len(v) if isinstance(nd, tg.Seq) else nd.elems
        subs = {i: own_tree(e, x) for (i, (e, x)) in enumerate(zip(elems, v))}
        failing = {i: s for (i, s) in subs.items() if s is not None}
        if failing:
            m = expect_product(tr, failing, set(), set(), where)
            if m:
                return (nd.kind, m)
            return recurse([(elems[i], v[i], s, f"{where}.{i}") for (i, s) in failing.items()])
        return leaf_actual(v)

    if isinstance(nd, tg.Map):
        if not tg.is_map(v):
            return leaf_actual(v)
        # children are keyed by the key itself ("keyed by exactly those ... keys"): None and 'None', 1.5 and '1.5' are different keys
        def ckey(k: t.Any) -> t.Any:
            return k
        failing: t.Dict[t.Any, t.Any] = {}
        rec: t.List[t.Tuple[tg.Node, t.Any, t.Any, str]] = []
        for (k, x) in v.items():
            ks, vs = own_tree(nd.k, k), own_tree(nd.v, x)
            if vs is not None and ks is not None:
                raise _KeyAndValue(k)
            if vs is not None:
                failing[ckey(k)] = vs
                rec.append((nd.v, x, vs, f"{where}.{k}"))
            elif ks is not None:
                failing[ckey(k)] = ks
                rec.append((nd.k, k, ks, f"{where}.<key {k}>"))
        if failing:
            m = expect_product(tr, failing, set(), set(), where)
            if m:
                return (nd.kind, m)
            return recurse(rec)
        return leaf_actual(v)

    if isinstance(nd, tg.Struct):
        if not tg.is_map(v):
            return leaf_actual(v)
        fd = dict(nd.fields)
        failing = {}
        rec = []
        extra = set()
        for (k, x) in v.items():
            if not (isinstance(k, str) and k in fd):
                extra.add(k)
                continue
            s = own_tree(fd[k], x)
            if s is not None:
                failing[k] = s
                rec.append((fd[k], x, s, f"{where}.{k}"))
        missing = {k for k in fd if k not in v}
        m = expect_product(tr, failing, missing, extra, where)
        if m:
            return (nd.kind, m)
        return recurse(rec)

    if isinstance(nd, cg.ClsNode):
        if tg.is_seq(v):
            if 'tuple' not in nd.in_format:
                return leaf_actual(v)
            if not (nd.min_len <= len(v) <= nd.max_len):
                if not isinstance(tr, WrongLenError) or tuple(tr.expected_len) != (nd.min_len, nd.max_len) or tr.actual_len != len(v):
                    return (nd.kind, f"{where}: a sequence of length {len(v)} for positional bounds {(nd.min_len, nd.max_len)} should give a length error with those bounds, got {short(tr, 200)}")
                return leaf_actual(v)
            failing = {}
            rec = []
            for (i, (f, x)) in enumerate(zip(nd.pos, v)):
                s = own_tree(f.node, x)
                if s is not None:
                    failing[i] = s
                    rec.append((f.node, x, s, f"{where}.{i}"))
            if failing:
                m = expect_product(tr, failing, set(), set(), where)
                if m:
                    return (nd.kind, m)
                return recurse(rec)
            return leaf_actual(v)
        if tg.is_map(v):
            if 'struct' not in nd.in_format:
                return leaf_actual(v)
            failing = {}
            rec = []
            extra = set()
            seen: t.Set[str] = set()
            for (k, x) in v.items():
                hit = nd.by_key.get(k) if isinstance(k, str) else None
                if hit is None:
                    if not nd.allow_extra:
                        extra.add(k)
                    continue
                (f, specified) = hit
                if not specified:
                    raise _Skip('python field name used although other input names are configured')
                if f.name in seen:
                    if not isinstance(tr, ProductErrorNode) or not isinstance(tr.children.get(k), DuplicateKeyError):
                        return (nd.kind, f"{where}: key {k!r} names field {f.name!r} a second time but the tree has no duplicate-key child for it: {short(tr, 200)}")
                    failing[k] = tr.children[k]
                    continue
                seen.add(f.name)
                s = own_tree(f.node, x)
                if s is not None:
                    failing[k] = s
                    rec.append((f.node, x, s, f"{where}.{k}"))
            missing = {f.name for f in nd.fields if f.init and f.name not in seen and not f.has_default()}
            if failing or missing or extra:
                m = expect_product(tr, failing, missing, extra, where)
                if m:
                    return (nd.kind, m)
                return recurse(rec)
            return leaf_actual(v)
        return leaf_actual(v)

    if isinstance(nd, tg.Union) or (isinstance(nd, tg.TypeVarN) and nd.mode == 'constrained'):
        ms = union_members(nd)
        if ms is None:
            return None
        if len({m.render() for m in ms}) != len(ms):
            raise _Skip('union with duplicate members')
        if not isinstance(tr, SumErrorNode):
            return (nd.kind, f"{where}: a failing union should report a sum node, got {type(tr).__name__}")
        if len(tr.children) != len(ms):
            return (nd.kind, f"{where}: union of {len(ms)} members reports {len(tr.children)} alternatives")
        rec = []
        for (i, m_) in enumerate(ms):
            s = own_tree(m_, v)
            d = tree_eq(tr.children[i], s)
            if d is not None:
                return (nd.kind, f"{where}|{i}: alternative {i} is not member {i}'s ({m_.render()[:80]}) own tree: {d}")
            rec.append((m_, v, s, f"{where}|{i}"))
        return recurse(rec)

    if isinstance(nd, (tg.Ann, tg.TypeVarN)):
        inner = nd.inner
        s = own_tree(inner, v)
        if s is not None:
            d = tree_eq(tr, s)
            if d is not None:
                return (nd.kind, f"{where}: the inner type rejects the value but the tree is not the inner type's own tree: {d}")
            return check_node(inner, v, s, ctx, depth + 1, where)
        if isinstance(nd, tg.Ann):
            if not isinstance(tr, ConditionFailedError):
                return (nd.kind, f"{where}: inner type accepts, so the tree should be a condition failure, got {type(tr).__name__}")
            return leaf_actual(v)
        return None

    if isinstance(nd, cg.TaggedNode):
        sp = nd.split(v)
        if isinstance(sp, tg.Rej):
            return leaf_actual(v)
        (tag, body) = sp
        sel = nd.select(tag)
        if isinstance(sel, tg.Unspec):
            raise _Skip(sel.why)
        if isinstance(sel, tg.Rej):
            return leaf_actual(tag)     # tag leaves record the tag
        s = own_tree(nd.variants[sel], body)
        d = tree_eq(tr, s)
        if d is not None:
            return (nd.kind, f"{where}: the body error is not the selected variant's ({nd.variants[sel].name}) own tree for the body: {d}")
        return check_node(nd.variants[sel], body, s, ctx, depth + 1, where)

    if isinstance(nd, tg.Vol):
        if not isinstance(tr, SumErrorNode) or len(tr.children) != 2:
            return (nd.kind, f"{where}: ValueOrList should report two alternatives, got {short(tr, 150)}")
        s0 = own_tree(nd.elem, v)
        d = tree_eq(tr.children[0], s0)
        if d is not None:
            return (nd.kind, f"{where}|0: first alternative is not the element type's own tree: {d}")
        return check_node(nd.elem, v, s0, ctx, depth + 1, where + '|0')

    # scalars, literals, enums, subclasses, arrays: leaf (or delegated) - the leaf must record the value *given*, not a converted copy of it
    if isinstance(nd, (tg.Scalar, tg.Lit, tg.Enum, tg.Sub)) or nd.kind == 'ndarray':
        return leaf_actual(v)
    return None


def check(case: t.Any, ctx: Ctx) -> None:
    (spec, v, how) = case[:3]
    nd = tg.node(spec)
    try:
        tr = own_tree(nd, v)
    except Exception:
        ctx.exclude('another exception escaped (C04)')
        ctx.label('skip:exception')
        return
    if tr is None:
        ctx.label('accepted')
        return
    if contains_itself(tr):
        ctx.fail('compositional', 'tree-contains-itself', f"T = {nd.render()[:300]}; v = {short(v, 200)}; a node of the error tree is among its own descendants "
                 f"(root {type(tr).__name__} expecting {getattr(tr, 'expected', None)!r:.100})")
        return
    st_ = tree_stats(tr)
    ctx.label('rejected', f"root:{nd.kind.split(':')[0]}", f"treedepth:{min(st_['depth'], 6)}")
    ctx.nontrivial(st_['leaf'] >= 2 or st_['sum'] > 0 or st_['missing'] + st_['extra'] + st_['dup'] > 0)
    try:
        r = check_node(nd, v, tr, ctx)
    except _Skip as e:
        ctx.exclude(str(e))
        return
    except _KeyAndValue as e:
        # the entry has one slot in `children`; the property wants every offending sub-value recorded by a leaf
        k = e.args[0]
        from ..errtree import leaf_actuals
        if not any(same(a, k) is None for a in leaf_actuals(tr)):
            ctx.fail('compositional', 'mapping:bad-key-and-bad-value', f"T = {nd.render()[:300]}; v = {short(v, 200)}; key {short(k, 60)} and its value are both "
                     f"rejected on their own, but no leaf of the tree records the key: {short(tr, 200)}")
        return
    except Exception as e:
        from ..core import triage_exception
        if triage_exception(e) is not None:
            ctx.exclude('another exception escaped from an element conversion (C04)')
            return
        raise
    if r is not None:
        ctx.fail('compositional', r[0], f"T = {nd.render()[:300]}; v = {short(v, 200)}; {r[1]}")
        return
    # "each child equals the tree ...": equality of trees is the trees' own ==.  The tree of the same failure taken again (the very
    # same offending objects in its leaves) is equal to the first - also when a leaf holds a NaN or an array, whose == is not a bool
    from ..oracles import outcome
    ctx.evaluated()
    (ke, eq) = outcome(lambda: tr == own_tree(nd, v))
    if ke != 'ok' or eq is not True:
        ctx.fail('compositional', 'tree-equality', f"T = {nd.render()[:300]}; v = {short(v, 200)}; the tree of this failure compared (==) with the tree of the same failure "
                 f"taken again: {eq!r:.150}")
        return
    # the tree is a function of (T, v): diagnosing other values with the same type object afterwards neither changes the tree
    # already handed out nor the tree the same value gets when it is diagnosed again
    if len(case) > 3 and case[3]:
        import copy
        try:
            kept = copy.deepcopy(tr)
        except Exception:
            return
        for v2 in case[3]:
            try:
                own_tree(nd, v2)
            except Exception:
                pass
        ctx.evaluated(2)
        d1 = tree_eq(tr, kept)
        if d1 is not None:
            ctx.fail('tree-is-a-value', 'changed-afterwards', f"T = {nd.render()[:300]}; v = {short(v, 150)}; after diagnosing {[short(x, 60) for x in case[3]]} with the same type "
                     f"the tree handed out earlier has changed: {d1}")
            return
        try:
            again = own_tree(nd, v)
        except Exception:
            again = None
        d2 = tree_eq(again, kept) if again is not None else 'the value is now accepted / raises'
        if d2 is not None:
            ctx.fail('tree-is-a-value', 'depends-on-earlier-diagnoses', f"T = {nd.render()[:300]}; v = {short(v, 150)}; diagnosed again after {[short(x, 60) for x in case[3]]} "
                     f"the tree differs from the first: {d2}")


@st.composite
def multi_fault_cases(draw, specs: st.SearchStrategy[t.Any]) -> t.Any:
    spec = draw(specs)
    nd = tg.node(spec)
    v = draw(nd.valid())
    if draw(st.booleans()):
        v = gen.reshape_all(draw, v)
    names = nd.names()
    base = v
    for _ in range(draw(st.integers(1, 4))):
        v = gen.mutate(draw, v, names)
    # further (mostly failing) values for the same type object: other mutations of the same valid value
    more = []
    for _ in range(draw(st.integers(0, 2))):
        w = base
        for _ in range(draw(st.integers(1, 2))):
            w = gen.mutate(draw, w, names)
        more.append(w)
    return [spec, v, 'mutated', more]


# ---- the key-naming relation of the tree is the one conversion uses --------------------------------------------------
#
# Whether the python field name is accepted as an input key when other input names are configured is an unspecified cell:
# the main suite skips such inputs.  This suite resolves the cell by observation instead of by assumption: it asks the
# *fast path* (a fully valid mapping with the field supplied under its python name) whether pane treats that key as
# naming the field, and then requires the diagnostic tree of a failing sibling input to describe the same relation -
# a field conversion counts as supplied is not "missing", a key conversion ignores is not a field.

@st.composite
def naming_cases(draw, specs: st.SearchStrategy[t.Any]) -> t.Any:
    spec = draw(specs)
    nd = tg.node(spec)
    base = draw(nd._valid_mapping())
    pick = draw(st.integers(0, 7))
    fault = draw(st.sampled_from(['sibling', 'extra', 'sibling', 'dropreq', 'dup']))
    bad = draw(gen.WRONG_KIND)
    return [spec, base, 'naming', pick, fault, bad]


def _force_rename(sp: t.Any) -> t.Any:
    """Give a class without any renamed field one (field-level rename of its first init field), so three quarters of the cases are not idle."""
    nd = tg.node(sp)
    if any(f.init and f.name not in f.in_names and nd.by_key.get(f.name, (f, False))[0] is f for f in nd.fields):
        return sp
    cs = dict(sp[1])
    fields = [dict(f) for f in cs['fields']]
    for f in fields:
        if f.get('init', True) and 'naming' not in f:
            f['naming'] = ['rename', 'forcedAlias']
            break
    cs['fields'] = fields
    return (sp[0], cs)


def _renamed_class_specs() -> st.SearchStrategy[t.Any]:
    ftypes = tg.type_specs(2)
    return cg.class_specs(ftypes).map(_force_rename).filter(lambda sp: 'struct' in tg.node(sp).in_format)


def check_naming(case: t.Any, ctx: Ctx) -> None:
    import pane
    from pane.errors import ProductErrorNode
    from ..oracles import outcome
    (spec, base, _, pick, fault, bad) = case
    nd = tg.node(spec)
    # (a python name that is the configured name of another field is not in the unspecified cell: it names that other field)
    cand = [f for f in nd.fields if f.init and f.name not in f.in_names and nd.by_key.get(f.name, (f, False))[0] is f]
    if not cand:
        ctx.label('no-renamed-field')
        return
    f = cand[pick % len(cand)]
    key = next((k for k in base if isinstance(k, str) and k in nd.by_key and nd.by_key[k][0] is f and nd.by_key[k][1]), None)
    if key is None:
        ctx.label('field-omitted')
        return
    T = nd.pytype()
    (k0, r0) = outcome(lambda: pane.from_data(base, T))
    if k0 != 'ok':
        ctx.exclude('the base mapping is not accepted (tricky leaf or post-init refusal)')
        return
    probe = {(f.name if k == key else k): x for (k, x) in base.items()}
    (k1, r1) = outcome(lambda: pane.from_data(probe, T))
    if k1 == 'exc':
        ctx.exclude('another exception escaped (C04)')
        return
    names_field = k1 == 'ok'
    if names_field and same(getattr(r1, f.name, None), getattr(r0, f.name, None)) is not None:
        ctx.exclude('python name accepted but with another meaning')
        return
    v = dict(probe)
    others = [k for k in v if k != f.name]
    if fault == 'sibling' and others:
        k = others[pick % len(others)]
        g = nd.by_key[k][0]
        try:
            if own_tree(g.node, bad) is None:
                fault = 'extra'
            else:
                v[k] = bad
        except Exception:
            fault = 'extra'
    elif fault == 'dropreq':
        req = [k for k in others if not nd.by_key[k][0].has_default()]
        if req:
            del v[req[pick % len(req)]]
        else:
            fault = 'extra'
    elif fault == 'dup':
        alt = [n for n in f.in_names]
        v[alt[pick % len(alt)]] = base[key]
    elif fault == 'sibling':
        fault = 'extra'
    if fault == 'extra':
        if nd.allow_extra:
            ctx.label('no-fault-possible')
            return
        v['zz_unknown_key'] = 0
    try:
        tr = own_tree(nd, v)
    except Exception:
        ctx.exclude('another exception escaped (C04)')
        return
    ctx.label(f"fault:{fault}", 'python-name-names-field' if names_field else 'python-name-ignored')
    if tr is None:
        if fault == 'dup' and not names_field:
            ctx.nontrivial(True)
            return
        ctx.fail('naming-relation', 'accepted', f"T = {nd.render()[:300]}; {short(v, 200)} should be refused ({fault}) but was accepted")
        return
    ctx.nontrivial(True)
    where = f"T = {nd.render()[:300]}; v = {short(v, 200)}; fast path on {short(probe, 120)}: {'accepted' if names_field else 'refused'}"
    if not isinstance(tr, ProductErrorNode):
        ctx.fail('naming-relation', 'not-a-product', f"{where}; tree is {type(tr).__name__}: {short(tr, 200)}")
        return
    if names_field:
        if f.name in tr.missing:
            ctx.fail('naming-relation', 'supplied-field-missing', f"{where}; conversion takes key {f.name!r} as the field, the tree lists it as missing: {short(tr, 200)}")
        elif f.name in tr.extra:
            ctx.fail('naming-relation', 'supplied-field-extra', f"{where}; conversion takes key {f.name!r} as the field, the tree lists it as an unknown key: {short(tr, 200)}")
        elif fault == 'dup':
            from pane.errors import DuplicateKeyError
            if not any(isinstance(c, DuplicateKeyError) for c in tr.children.values()):
                ctx.fail('naming-relation', 'duplicate-not-reported', f"{where}; field given twice, no duplicate-key child: {short(tr, 200)}")
    else:
        if fault != 'dup' and not f.has_default() and f.name not in tr.missing:
            ctx.fail('naming-relation', 'ignored-key-not-missing', f"{where}; conversion ignores key {f.name!r}, so the field is absent, but it is not listed as missing: {short(tr, 200)}")
        elif not nd.allow_extra and f.name not in tr.extra:
            ctx.fail('naming-relation', 'ignored-key-not-extra', f"{where}; conversion ignores key {f.name!r} but the tree does not list it as unknown: {short(tr, 200)}")


def suites(tier: str) -> t.List[Suite]:
    big = tier == 'thorough'
    leaves = 8 if big else 4
    return [
        Suite('trees', check, strategy=lambda: multi_fault_cases(gen.all_type_specs(leaves)), examples=8000 if big else 600,
              budget_s=480 if big else 40, render=gen.render_case),
        Suite('python-names', check_naming, strategy=lambda: naming_cases(_renamed_class_specs()), examples=3000 if big else 300,
              budget_s=240 if big else 25, render=gen.render_case),
    ]
