"""
C04  Only ConvertError escapes a conversion of interchange data.

Half 1 (suite 'escape'): shared conversion generator with adversarial leaves;
entry points from_data, convert, Cls.from_data, make_converter(T).convert and,
when the value is representable, from_json / from_yaml.  Each call must return
or raise ConvertError.  Anything else is bucketed by
(exception type, innermost pane frame) - one key per root cause.

Half 2 (suite 'unsupported'): an unsupported type planted at a random position
inside a supported type: make_converter and from_data must raise TypeError or
UnsupportedAnnotation, the same for every value ("before any data is looked
at"); and every supported type of the grammar must build.
"""

from __future__ import annotations

import collections
import enum
import io
import json
import typing as t

from hypothesis import strategies as st

from ..core import Suite, Ctx, triage_exception
from .. import tg, cg, gen
from ..codec import short, MySeq, MyMap
from ..oracles import blame

ID = 'C04'
RULE = ("Hypothesis. 'escape': shared conversion generator (full grammar) with adversarial leaves (strings that make stdlib constructors "
        "raise, 10**400, inf/nan, unhashable tags/keys, odd containers without .copy()), five entry points + JSON/YAML readers. "
        "'unsupported': one of 17 unsupported type forms planted inside a supported wrapper (list/dict/Optional/tuple/struct literal/"
        "tuple literal/dataclass field/Annotated) x 3 values. Non-trivial = the value has an adversarial or wrong-kind leaf below the "
        "root (escape), or the unsupported form is below the root (unsupported); distinct by case.")
ASSUMPTIONS = [
    "values are interchange data (scalars, Sequences, Mappings); ints bounded to 1000 digits (CPython's int->str limit makes any message with a huge int raise)",
    "for 'tag attribute not found in a union member' either AttributeError or TypeError is accepted (DESIGN section 2)",
    "JSON/YAML entry points are exercised only for values the standard dumpers can represent",
]


def _plain(v: t.Any, fmt: str) -> t.Any:
    """Value -> something json / yaml can dump; raises ValueError when not representable."""
    if v is None or isinstance(v, (bool, str)):
        return v
    if isinstance(v, int):
        if abs(v) > 10**300:
            raise ValueError
        return v
    if isinstance(v, float):
        return v
    if isinstance(v, (bytes,)) and fmt == 'yaml':
        return v
    if tg.is_seq(v):
        return [_plain(x, fmt) for x in v]
    if tg.is_map(v):
        out = {}
        for (k, x) in v.items():
            if fmt == 'json' and not isinstance(k, str):
                raise ValueError
            if not isinstance(k, (str, int, bool, float, type(None))) or (isinstance(k, float) and k != k):
                raise ValueError
            out[k] = _plain(x, fmt)
        return out
    raise ValueError


def _escape(ctx: Ctx, nd: tg.Node, v: t.Any, what: str, f: t.Callable[[], t.Any]) -> t.Optional[str]:
    import pane
    ctx.evaluated()
    try:
        f()
    except pane.ConvertError:
        return None
    except RecursionError:
        raise
    except Exception as e:
        k = triage_exception(e)
        if k is None:
            # raised by harness code called back from pane (predicates, hooks) and not caught by pane: still an escape
            k = f"{type(e).__name__}@callback"
        return f"{what}|{k}|{what}({short(v, 200)}, {nd.render()[:300]}) raised {type(e).__name__}: {str(e)[:200]}"
    return None


def _entry_points(nd: tg.Node, v: t.Any) -> t.List[t.Tuple[str, t.Callable[[], t.Any]]]:
    import pane
    from pane.convert import make_converter
    T = nd.pytype()
    eps: t.List[t.Tuple[str, t.Callable[[], t.Any]]] = [
        ('from_data', lambda: pane.from_data(v, T)),
        ('convert', lambda: pane.convert(v, T)),
        ('make_converter.convert', lambda: make_converter(T).convert(v)),
    ]
    if nd.kind == 'dataclass':
        eps.append(('Cls.from_data', lambda: T.from_data(v)))
        eps.append(('Cls.from_obj', lambda: T.from_obj(v)))
    return eps


def check_escape(case: t.Any, ctx: Ctx) -> None:
    import pane
    (spec, v, how) = case[:3]
    nd = tg.node(spec)
    try:
        T = nd.pytype()
        from pane.convert import make_converter
        make_converter(T)
    except Exception as e:
        k = triage_exception(e) or type(e).__name__
        ctx.fail('supported-type-builds', f"{nd.kind}:{k}", f"make_converter({nd.render()[:400]}) raised {type(e).__name__}: {e}")
        return
    ctx.label(f"{how}", f"root:{nd.kind.split(':')[0]}")
    ctx.nontrivial(how != 'valid' and (tg.is_seq(v) or tg.is_map(v)) and len(v) > 0)

    def failing_for(name: str) -> t.Callable[[tg.Node, t.Any], bool]:
        def failing(n: tg.Node, x: t.Any) -> bool:
            c = Ctx()
            return any(_escape(c, n, x, w, f) is not None for (w, f) in _entry_points(n, x) if w == name)
        return failing

    for (what, f) in _entry_points(nd, v):
        r = _escape(ctx, nd, v, what, f)
        if r is not None:
            (w, k, detail) = r.split('|', 2)
            where = blame(nd, v, failing_for(w)) if w in ('from_data', 'convert', 'make_converter.convert') else nd
            ctx.fail(f'escape:{w}', f"{k}/{where.kind}", detail)

    for fmt in ('json', 'yaml'):
        try:
            pv_ = _plain(v, fmt)
            if fmt == 'json':
                text = json.dumps(pv_)
            else:
                import yaml
                text = yaml.dump(pv_, Dumper=yaml.CSafeDumper)
        except (ValueError, TypeError, OverflowError):
            continue
        except Exception:
            continue
        T = nd.pytype()
        reader = pane.from_json if fmt == 'json' else pane.from_yaml
        r = _escape(ctx, nd, v, f'from_{fmt}', lambda: reader(io.StringIO(text), T))
        ctx.label(f'reader:{fmt}')
        if r is not None:
            (w, k, detail) = r.split('|', 2)
            ctx.fail(f'escape:{w}', f"{k}/{nd.kind}", detail + f" [document: {text[:200]!r}]")


    # YAML has scalar kinds of its own (timestamps, sets, binary): a document that is (or holds) one is still a document
    import yaml
    doc = YAML_NATIVE[(len(repr(v)) + len(nd.render())) % len(YAML_NATIVE)]
    T = nd.pytype()
    try:
        yaml.load(doc, yaml.CSafeLoader)
    except Exception:
        return
    r = _escape(ctx, nd, v, 'from_yaml', lambda: pane.from_yaml(io.StringIO(doc), T))
    ctx.label('reader:yaml-native')
    if r is not None:
        (w, k, detail) = r.split('|', 2)
        ctx.fail(f'escape:{w}', f"{k}/yaml-native", detail + f" [document: {doc!r}]")


YAML_NATIVE = ['2020-01-01', '2020-01-01 10:00:00', '2020-01-01T10:00:00+02:00', '!!set {a, b}', '!!binary aGk=', '[2020-01-01]', '{d: 2020-01-01}',
               '- !!set {1, 2}', '{2020-01-01: 1}', '? [1, 2]\n: 3', '0o17', '1_000', '.inf', '.nan', '~', '', 'yes', '!!timestamp 2020-01-01']


# ---- unsupported types -------------------------------------------------------------------

class _Plain:
    pass


class _FlagE(enum.Flag):
    A = 1
    B = 2


class _UnhashE(enum.Enum):
    A = [1]


class _ObjE(enum.Enum):
    A = object()


_NT = t.NewType('_NT', int)

UNSUPPORTED: t.Dict[str, t.Callable[[], t.Any]] = {
    'ForwardRef': lambda: t.ForwardRef('Foo'),
    'str-annotation': lambda: 'Foo',
    'Callable': lambda: t.Callable[[int], int],
    'ClassVar': lambda: t.ClassVar[int],
    'Type': lambda: t.Type[int],
    'Iterable': lambda: t.Iterable[int],
    'Collection': lambda: t.Collection[int],
    'Flag-enum': lambda: _FlagE,
    'enum-unhashable-values': lambda: _UnhashE,
    'enum-non-data-values': lambda: _ObjE,
    'Annotated-unknown-metadata': lambda: t.Annotated[int, 'some metadata'],
    'Tagged-non-union': lambda: _tagged_non_union(),
    'bare-Annotated': lambda: t.Annotated,
    'PaneBase-itself': lambda: __import__('pane').PaneBase,
    'Tagged-external-of-one-name': lambda: _tagged_arity(),
    'Tagged-member-without-tag': lambda: _tagged_missing(False),
    'Tagged-optional-union': lambda: _tagged_missing(True),
    'Pattern[int]': lambda: t.Pattern[int],   # type: ignore
    'object': lambda: object,
    'plain-class': lambda: _Plain,
    'NewType': lambda: _NT,
    'Final': lambda: t.Final[int],
    'abstract-MutableSet-subclass': lambda: collections.abc.Reversible,
}


def _tagged_non_union():
    from pane.annotations import Tagged
    return t.Annotated[int, Tagged('x')]


def _tagged_arity() -> t.Any:
    """Tagged(..., external=(tag_key,)): the adjacent layout needs two names."""
    from pane.annotations import Tagged
    _tagged_missing(False)
    (Cat, Dog, _) = _CLS_CACHE['tagged-missing']
    return t.Annotated[t.Union[Cat, Dog], Tagged('kind', external=('t',))]      # type: ignore


def _tagged_missing(optional: bool) -> t.Any:
    """A tagged union one of whose members has no such tag (another dataclass / None): not a well-formed tagged union."""
    import pane
    from pane.annotations import Tagged
    if 'tagged-missing' not in _CLS_CACHE:
        Cat = type('Cat', (pane.PaneBase,), {'__annotations__': {'n': int, 'kind': t.Literal['cat']}, 'kind': 'cat'})
        Dog = type('Dog', (pane.PaneBase,), {'__annotations__': {'n': int, 'kind': t.Literal['dog']}, 'kind': 'dog'})
        Rock = type('Rock', (pane.PaneBase,), {'__annotations__': {'n': int}})
        _CLS_CACHE['tagged-missing'] = (Cat, Dog, Rock)
    (Cat, Dog, Rock) = _CLS_CACHE['tagged-missing']
    return t.Annotated[t.Optional[t.Union[Cat, Dog]], Tagged('kind')] if optional else t.Annotated[t.Union[Cat, Rock], Tagged('kind')]


WRAPPERS = ['top', 'List', 'Dict-value', 'Optional', 'Tuple-slot', 'struct-literal', 'tuple-literal', 'dataclass-field',
            'Annotated-inner', 'Set', 'nested-2']
_KEEP: t.List[t.Any] = []
_CLS_CACHE: t.Dict[str, t.Any] = {}


def _wrap(name: str, wrapper: str) -> t.Tuple[t.Any, t.List[t.Any]]:
    """-> (type, three probe values of the wrapper's general shape)"""
    import pane
    X = UNSUPPORTED[name]()
    probes: t.List[t.Any]
    if wrapper == 'top':
        T, probes = X, [5, 'a', None]
    elif wrapper == 'List':
        T, probes = t.List[X], [[], [5], 'nope']
    elif wrapper == 'Dict-value':
        T, probes = t.Dict[str, X], [{}, {'k': 5}, 7]
    elif wrapper == 'Optional':
        T, probes = t.Optional[X], [None, 5, []]
    elif wrapper == 'Tuple-slot':
        T, probes = t.Tuple[int, X], [[1, 2], [], 'x']
    elif wrapper == 'struct-literal':
        T, probes = {'k': X, 'j': int}, [{'k': 1, 'j': 2}, {}, []]
    elif wrapper == 'tuple-literal':
        T, probes = (int, X), [[1, 2], [], None]
    elif wrapper == 'Annotated-inner':
        from pane.annotations import Positive
        T, probes = t.Annotated[X, Positive], [1, -1, 'a']
    elif wrapper == 'Set':
        T, probes = t.Set[X], [[], [1], {}]
    elif wrapper == 'nested-2':
        T, probes = t.Dict[str, t.List[t.Optional[X]]], [{}, {'k': [None]}, {'k': 5}]
    else:
        key = f"{name}"
        if key not in _CLS_CACHE:
            _CLS_CACHE[key] = type('Holder', (pane.PaneBase,), {'__annotations__': {'a': int, 'b': X}, 'b': None})
        T, probes = _CLS_CACHE[key], [{'a': 1}, {'a': 1, 'b': 2}, []]
    _KEEP.append(T)
    return T, probes


def unsupported_cases(shard: int, nshards: int) -> t.Iterator[t.Any]:
    i = 0
    for name in UNSUPPORTED:
        for w in WRAPPERS:
            if name in ('ClassVar', 'Final') and w in ('Optional', 'List', 'Dict-value', 'Tuple-slot', 'Set', 'nested-2', 'Annotated-inner'):
                continue   # typing itself refuses ClassVar/Final as a type argument
            if name in ('str-annotation', 'ForwardRef') and w == 'dataclass-field':
                continue   # a string annotation in a class body is a forward reference that typing resolves or NameErrors on
            if i % nshards == shard:
                yield [name, w]
            i += 1


def check_unsupported(case: t.Any, ctx: Ctx) -> None:
    import pane
    from pane.errors import UnsupportedAnnotation
    from pane.convert import make_converter
    (name, wrapper) = case
    ctx.label(f"unsupported:{wrapper}")
    ctx.nontrivial(wrapper != 'top')
    try:
        (T, probes) = _wrap(name, wrapper)
    except (TypeError, UnsupportedAnnotation) as e:
        if triage_exception(e) is None:
            ctx.exclude('typing refuses this combination itself')
        else:
            ctx.label('refused-at-class-creation')   # TypeError while the class is defined: refused before any data exists
        return
    ok_types = (TypeError, UnsupportedAnnotation)
    seen: t.List[str] = []
    calls: t.List[t.Tuple[str, t.Callable[[], t.Any]]] = [('make_converter', lambda: make_converter(T))]
    for p in probes:
        calls.append((f'from_data({p!r})', (lambda p: (lambda: pane.from_data(p, T)))(p)))
    for (what, f) in calls:
        ctx.evaluated()
        try:
            r = f()
        except ok_types as e:
            seen.append(type(e).__name__)
            continue
        except pane.ConvertError as e:
            ctx.fail('unsupported-refused-up-front', f"{name}", f"{what} with {name} in {wrapper}: data was looked at (ConvertError: {str(e)[:150]}) before the unsupported type was refused")
            return
        except Exception as e:
            ctx.fail('unsupported-refused-up-front', f"{name}", f"{what} with {name} in {wrapper} raised {type(e).__name__}: {str(e)[:200]} (want TypeError/UnsupportedAnnotation)")
            return
        else:
            ctx.fail('unsupported-refused-up-front', f"{name}", f"{what} with {name} in {wrapper} returned {short(r, 100)} instead of refusing the type")
            return
    if len(set(seen)) > 1:
        ctx.fail('unsupported-refused-up-front', f"{name}", f"{name} in {wrapper}: exception type depends on the data: {seen}")


def atheris_cases(shard: int, nshards: int) -> t.Iterator[t.Any]:
    yield ['atheris-campaign', shard]


def check_atheris(case: t.Any, ctx: Ctx) -> None:
    """One coverage-guided campaign (pv/fuzz.py) per worker; its collected failures are reported with their own replayable cases."""
    import json
    import os
    import subprocess
    import sys
    import tempfile
    from .. import codec
    from ..core import ROOT
    shard = case[1]
    out = tempfile.mktemp(prefix=f'pv-fuzz-{ID}-{shard}-', suffix='.jsonl', dir='/tmp')
    seed = int(os.environ.get('VERIF_SEED', '1') or 1) * 100 + shard + 1
    r = subprocess.run([sys.executable, '-m', 'pv.fuzz', ID, '--out', out, '--runs', '400000', '--seed', str(seed), '--budget', str(ATHERIS_BUDGET)],
                       cwd=ROOT, env=dict(os.environ), capture_output=True, text=True, timeout=ATHERIS_BUDGET + 120)
    stats: t.Dict[str, t.Any] = {}
    try:
        for line in open(out, encoding='utf-8'):
            rec = json.loads(line)
            if 'stats' in rec:
                stats = rec['stats']
            else:
                (oracle, _, klass) = rec['key'].partition('/')
                ctx.fail(oracle, klass, rec['detail'] + '  [found by the atheris campaign]', case=codec.dec(rec['case']), suite='escape')
    except FileNotFoundError:
        pass
    finally:
        import shutil
        shutil.rmtree(out + '.corpus', ignore_errors=True)
        if os.path.exists(out):
            os.remove(out)
    if stats.get('error') or not stats:
        ctx.label('atheris:unavailable')
        ctx.exclude(f"atheris campaign did not run: {stats.get('error') or r.stderr[-200:]}")
        return
    ctx.label('atheris:campaign')
    ctx.evaluated(int(stats.get('valid_cases', 0)))
    ctx.nontrivial(stats.get('nontrivial', 0) > 0)


ATHERIS_BUDGET = 240.0


# ---- user hooks that raise: every kind of exception, every hook, every data path ------------------------------------------------------
#
# "user predicates or validation hooks that raise": __post_init__, a default factory, a Condition's predicate, a field converter's
# constructor.  Whatever they raise (ValueError or the AttributeError of a slip in the hook itself) comes out of the data paths as
# ConvertError; hooks are not code pane may let fall through.

HOOK_EXC = ['ValueError', 'AttributeError', 'NameError', 'KeyError', 'LookupError', 'TypeError', 'StopIteration', 'ZeroDivisionError', 'Custom']
HOOKS = ['post_init', 'default_factory', 'predicate', 'namedtuple_new']
_HK: t.Dict[t.Any, t.Any] = {}


class _CustomHookError(Exception):
    pass


def hook_cases(shard: int, nshards: int) -> t.Iterator[t.Any]:
    i = 0
    for hook in HOOKS:
        for exc in HOOK_EXC:
            for layout in ('mapping', 'sequence'):
                for where in ('bare', 'List', 'Union', 'json'):
                    if i % nshards == shard:
                        yield [hook, exc, layout, where]
                    i += 1


def check_hooks(case: t.Any, ctx: Ctx) -> None:
    import json
    import pane
    from pane.annotations import Condition
    (hook, excn, layout, where) = case
    E = _CustomHookError if excn == 'Custom' else getattr(__builtins__, excn, None) or __builtins__[excn]     # type: ignore
    key = (hook, excn)
    if key not in _HK:
        state = {'armed': False}

        def boom(*a: t.Any) -> t.Any:
            if state['armed']:
                raise E('raised by a user hook')
            return 0 if hook == 'default_factory' else True
        ns: t.Dict[str, t.Any] = {'__annotations__': {'name': str, 'n': int}}
        if hook == 'namedtuple_new':
            # a named tuple class whose subclass checks its fields in __new__: whether the hook runs at all is the library's choice
            # (it builds named tuples with `_make`, which goes around __new__); what it raises when it does run is a refusal
            Base = t.NamedTuple('Base', [('name', str), ('n', int)])

            def new(cls: t.Any, name: str, n: int) -> t.Any:
                boom()
                return Base.__new__(cls, name, n)
            _HK[key] = (type('Hooked', (Base,), {'__new__': new, '__slots__': ()}), state)
        elif hook == 'post_init':
            ns['n'] = 0
            ns['__post_init__'] = lambda self: boom()
        elif hook == 'default_factory':
            ns['n'] = pane.field(default_factory=boom)
        else:
            ns['__annotations__'] = {'name': str, 'n': t.Annotated[int, Condition(boom, 'user predicate')]}
            ns['n'] = 0
        if key not in _HK:
            _HK[key] = (type('Hooked', (pane.PaneBase,), ns, in_format=('struct', 'tuple')), state)
    (Cls, state) = _HK[key]
    if hook == 'namedtuple_new' and (layout == 'mapping' or where == 'json'):
        ctx.label('cell:not-formable')
        return
    state['armed'] = True
    data: t.Any = ({'name': 'a'} if hook == 'default_factory' else {'name': 'a', 'n': 1}) if layout == 'mapping' else (['a'] if hook == 'default_factory' else ['a', 1])
    ctx.label(f"hook:{hook}", f"raises:{excn}", layout, where)
    ctx.nontrivial(True)
    calls = {
        'bare': [('from_data', lambda: pane.from_data(data, Cls)), *([('Cls.from_data', lambda: Cls.from_data(data))] if hasattr(Cls, 'from_data') else []),
                 ('convert', lambda: pane.convert(data, Cls)), ('from_data(Dict[str, Cls])', lambda: pane.from_data({'k': data}, t.Dict[str, Cls]))],
        'List': [('from_data(List[Cls])', lambda: pane.from_data([data], t.List[Cls]))],
        'Union': [('from_data(Union[Cls, None])', lambda: pane.from_data(data, t.Optional[Cls])), ('from_data(Union[Cls, str])', lambda: pane.from_data(data, t.Union[Cls, str]))],
        'json': [('Cls.from_jsons', lambda: Cls.from_jsons(json.dumps(data))), ('Cls.from_yamls', lambda: Cls.from_yamls(json.dumps(data)))],
    }[where]
    for (what, f) in calls:
        ctx.evaluated()
        try:
            f()
            got: t.Any = None
            if hook == 'namedtuple_new':
                continue        # returned: the hook was not consulted
        except pane.ConvertError:
            continue
        except BaseException as e:      # noqa: B036
            got = e
        ctx.fail(f"escape:{what.split('(')[0]}", f"hook-{hook}:{type(got).__name__ if got is not None else 'accepted'}", f"class Hooked with a {hook} that raises {excn}, {layout} data {data!r}: {what} "
                 f"{'returned a value' if got is None else 'let ' + type(got).__name__ + ' out: ' + str(got)[:100]} (want ConvertError)")
        return


def suites(tier: str) -> t.List[Suite]:
    big = tier == 'thorough'
    leaves = 8 if big else 4
    return [
        Suite('hash-hostile', check_escape, strategy=lambda: gen.conv_cases(gen.hash_hostile_specs()), examples=2000 if big else 150, budget_s=120 if big else 20, render=gen.render_case),
        Suite('escape', check_escape, strategy=lambda: gen.conv_cases(gen.all_type_specs(leaves)), examples=6000 if big else 500,
              budget_s=480 if big else 40, render=gen.render_case),
        *([Suite('atheris', check_atheris, cases=atheris_cases, budget_s=ATHERIS_BUDGET + 200)] if big else []),
        Suite('raising-hooks', check_hooks, cases=hook_cases, exhaustive=True, budget_s=60, render=lambda c: {'hook': c[0], 'raises': c[1], 'layout': c[2], 'where': c[3]}),
        Suite('unsupported', check_unsupported, cases=unsupported_cases, budget_s=120),
    ]
