"""
C16  Dataclass value semantics: equality, order, hash, frozen, copy, repr.

The option cube (eq, order, frozen, unsafe_hash, explicit __hash__ in {absent,
function, None}, user __eq__) is *enumerated* (96 points); per point Hypothesis
draws per-field compare / hash / repr flags and instance triples.  Oracles:
  hash     differential against the standard library: the same fields and options given
           to dataclasses.dataclass land in the same category (refused at class creation,
           unhashable, identity hash, field hash, the user's function)
  eq/order reflexive, symmetric, transitive; equal to the model's comparison of the
           compare-fields; lexicographic; exactly one of < == > for same-class instances;
           a == b implies hash(a) == hash(b)
  frozen   assignment and deletion raise and leave the instance unchanged
  copy     copy / deepcopy / __replace__() give equal instances with the same set record;
           deepcopy shares no mutable field; __replace__(changes) converts and records them
  repr     lists the repr-fields in model order
"""

from __future__ import annotations

import copy
import dataclasses
import itertools
import typing as t

from hypothesis import strategies as st

from ..core import Suite, Ctx
from ..codec import short
from ..oracles import outcome

ID = 'C16'
RULE = ("cube of 96 option points enumerated on every run (each with a fixed field layout and fixed instances) + Hypothesis: cube point x "
        "per-field compare/hash/repr flags (3 hashable fields + 1 list field) x instance triples from a small value range (so equal and "
        "ordered pairs are frequent). Non-trivial = a non-default cube point or a compare=False / hash=False / repr=False field; distinct by case.")
ASSUMPTIONS = [
    "order=True with eq=False is refused by the standard library but not by pane; the stdlib twin is built with order=False there (order does not enter the hash table)",
    "field values are totally ordered (int, str, tuple of int), no NaN",
]

HASH_KINDS = ['absent', 'function', 'none']
CUBE = list(itertools.product([True, False], [True, False], [True, False], [False, True], HASH_KINDS, [False, True]))
_KEEP: t.List[t.Any] = []
_CACHE: t.Dict[str, t.Any] = {}


def _user_hash(self):
    return 42


def _user_eq(self, other):
    return type(other) is type(self) and self.a == other.a


def make_classes(point: t.Sequence[t.Any], flags: t.Sequence[t.Sequence[bool]], with_list: bool) -> t.Tuple[t.Any, t.Any]:
    """-> (pane class | exception, stdlib twin | exception)"""
    import pane
    key = repr((point, flags, with_list))
    if key in _CACHE:
        return _CACHE[key]
    (eq, order, frozen, unsafe_hash, hash_kind, user_eq) = point
    names = ['a', 'b', 'c'] + (['d'] if with_list else [])
    types = {'a': int, 'b': str, 'c': t.Tuple[int, ...], 'd': t.List[int]}

    def body(field_fn: t.Callable[..., t.Any], stdlib: bool) -> t.Dict[str, t.Any]:
        ns: t.Dict[str, t.Any] = {'__annotations__': {n: types[n] for n in names}}
        for (n, fl) in zip(names, flags):
            (cmp_, hsh, rpr) = fl[:3]
            excl = (len(fl) > 3 and bool(fl[3])) and not stdlib
            kw: t.Dict[str, t.Any] = {}
            if not cmp_:
                kw['compare'] = False
            if hsh is not None:
                kw['hash'] = hsh
            if not rpr:
                kw['repr'] = False
            if excl:
                kw['exclude'] = True       # (pane only; exclusion concerns serialisation, not value semantics)
            if n == 'd':
                kw['default_factory'] = list
            if kw:
                ns[n] = field_fn(**kw)
        if hash_kind == 'function':
            ns['__hash__'] = _user_hash
        elif hash_kind == 'none':
            ns['__hash__'] = None
        if user_eq:
            ns['__eq__'] = _user_eq
        return ns

    try:
        P = type('PaneCls', (pane.PaneBase,), body(pane.field, False), eq=eq, order=order, frozen=frozen, unsafe_hash=unsafe_hash)
    except Exception as e:
        P = e
    try:
        S = dataclasses.dataclass(eq=eq, order=order and eq, frozen=frozen, unsafe_hash=unsafe_hash)(type('StdCls', (), body(dataclasses.field, True)))
    except Exception as e:
        S = e
    _KEEP.append((P, S))
    _CACHE[key] = (P, S)
    return P, S


def hash_category(cls: t.Any, mk: t.Callable[[t.Any, int], t.Any]) -> str:
    if isinstance(cls, Exception):
        return f'refused:{type(cls).__name__}'
    if cls.__dict__.get('__hash__', 'absent') is None or getattr(cls, '__hash__', None) is None:
        return 'unhashable'
    x1, x2, y = mk(cls, 1), mk(cls, 1), mk(cls, 2)
    try:
        h1, h2, hy = hash(x1), hash(x2), hash(y)
    except TypeError:
        return 'unhashable'
    if h1 == 42 and hy == 42:
        return 'explicit'
    if h1 == h2 and h1 != hy:
        return 'fields'
    if h1 == h2 and h1 == hy:
        return 'fields-constant'       # no field takes part in the hash
    return 'identity'


def _mk_std(cls: t.Any, seedv: int, with_list: bool = False) -> t.Any:
    return cls(a=seedv, b=str(seedv), c=(seedv,))


def cube_cases(shard: int, nshards: int) -> t.Iterator[t.Any]:
    for (i, p) in enumerate(CUBE):
        if i % nshards == shard:
            yield [list(p), [[True, None, True]] * 3 + [[True, False, True]], [[1, 'x', [1]], [1, 'x', [1]], [2, 'a', []]]]


inst_vals = st.tuples(st.integers(0, 2), st.sampled_from(['', 'a', 'b']), st.lists(st.integers(0, 1), max_size=2))


@st.composite
def cases(draw) -> t.Any:
    point = list(draw(st.sampled_from(CUBE)))
    flags = [[draw(st.booleans()) or draw(st.booleans()), draw(st.sampled_from([None, None, True, False])), draw(st.booleans()) or draw(st.booleans()),
              draw(st.integers(0, 3)) == 3] for _ in range(4)]
    insts = [list(draw(inst_vals)) for _ in range(3)]
    return [point, flags, insts]


def render(case: t.Any) -> t.Any:
    (point, flags, insts) = case
    return {'eq,order,frozen,unsafe_hash,__hash__,user __eq__': point, 'field flags (compare, hash, repr) for a,b,c,d': flags, 'instances': insts}


def check(case: t.Any, ctx: Ctx) -> None:
    import pane
    (point, flags, insts) = case
    (eq, order, frozen, unsafe_hash, hash_kind, user_eq) = point
    flags = [tuple(f) for f in flags]
    default_point = (eq, order, frozen, unsafe_hash, hash_kind, user_eq) == (True, True, True, False, 'absent', False)
    if any(len(f) > 3 and f[3] for f in flags):
        ctx.label('has-excluded-field')
    ctx.label(f"eq={eq},order={order},frozen={frozen},unsafe_hash={unsafe_hash},hash={hash_kind},user_eq={user_eq}")
    ctx.nontrivial(not default_point or any(tuple(f[:3]) != (True, None, True) or (len(f) > 3 and f[3]) for f in flags))
    ident = f"options eq={eq} order={order} frozen={frozen} unsafe_hash={unsafe_hash} __hash__={hash_kind} user __eq__={user_eq}; field flags (compare, hash, repr) a,b,c,d = {flags}"

    # ---- hash: differential against the stdlib -----------------------------------------------
    (P, S) = make_classes(point, flags[:3], False)
    ctx.evaluated()
    cat_p = hash_category(P, _mk_std)
    cat_s = hash_category(S, _mk_std)
    norm = lambda c: 'refused' if c.startswith('refused') else c  # noqa: E731
    if norm(cat_p) != norm(cat_s):
        ctx.fail('hash-rule-table', f"pane:{norm(cat_p)}/stdlib:{norm(cat_s)}", f"{ident}; pane class is '{cat_p}', the same definition as a standard dataclass is '{cat_s}'")
        return
    if isinstance(P, Exception):
        ctx.label('refused-at-creation')
        return

    # ---- instances ---------------------------------------------------------------------------------
    (PM, _) = make_classes(point, flags, True)
    if isinstance(PM, Exception):
        return
    xs = [P(a=a, b=b, c=tuple(c)) for (a, b, c) in insts]
    cmp_fields = [n for (n, f) in zip('abc', flags) if f[0]]
    flags3 = [tuple(f[:3]) for f in flags]

    def key(x: t.Any) -> t.Tuple[t.Any, ...]:
        return tuple(getattr(x, n) for n in cmp_fields)

    if eq and not user_eq:
        for (x, y) in itertools.product(xs, xs):
            ctx.evaluated()
            want = key(x) == key(y)
            if (x == y) != want or (x != y) == want or (y == x) != want:
                ctx.fail('equality', 'compare-fields', f"{ident}; {x!r} == {y!r} is {x == y}, compare-fields {cmp_fields} say {want}")
                return
        if any(x == 5 or x == None for x in xs):  # noqa: E711
            ctx.fail('equality', 'foreign', f"{ident}; an instance equals a foreign object")
            return
    tri_reported = False
    if order and not user_eq:
        for (x, y) in itertools.product(xs, xs):
            ctx.evaluated()
            (kx, ky) = (key(x), key(y))
            got = (x < y, x <= y, x > y, x >= y)
            want_o = (kx < ky, kx <= ky, kx > ky, kx >= ky)
            if got != want_o:
                ctx.fail('ordering', 'lexicographic', f"{ident}; {x!r} vs {y!r}: (<, <=, >, >=) = {got}, lexicographic order of {cmp_fields} gives {want_o}")
                return
            if sum([x < y, x == y, x > y]) != 1:
                # (eq=False leaves identity equality while the default order=True still orders by fields: known finding D65)
                if eq or not tri_reported:
                    ctx.fail('ordering', 'trichotomy' if eq else 'trichotomy:eq=False-with-order', f"{ident}; {x!r} vs {y!r}: not exactly one of <, ==, > holds "
                             f"(<: {x < y}, ==: {x == y}, >: {x > y})")
                if eq:
                    return
                tri_reported = True      # (the recorded finding: go on with the remaining oracles for this point)
        (k, r) = outcome(lambda: xs[0] < 5)
        if k == 'ok':
            ctx.fail('ordering', 'foreign', f"{ident}; comparing an instance with an int returned {r!r} instead of raising TypeError")
            return
    hash_subset_of_compare = all(f[0] or not (f[1] if f[1] is not None else f[0]) for f in flags[:3])
    # (hash=True on a compare=False field is the user's own inconsistency, in the standard library too)
    if cat_p in ('fields', 'fields-constant', 'explicit') and eq and not user_eq and hash_subset_of_compare:
        for (x, y) in itertools.product(xs, xs):
            if x == y and hash(x) != hash(y):
                ctx.fail('eq-implies-hash', cat_p, f"{ident}; {x!r} == {y!r} but their hashes differ")
                return
    if cat_p == 'fields' and hash_kind == 'absent':
        hash_fields = [n for (n, f) in zip('abc', flags3) if (f[1] if f[1] is not None else f[0])]
        for (x, y) in itertools.product(xs, xs):
            same_h = tuple(getattr(x, n) for n in hash_fields) == tuple(getattr(y, n) for n in hash_fields)
            if same_h and hash(x) != hash(y):
                ctx.fail('hash-fields', 'hash-flag', f"{ident}; {x!r} and {y!r} agree on the hash-fields {hash_fields} but hash differently")
                return

    # ---- frozen ------------------------------------------------------------------------------------
    x = PM(a=insts[0][0], b=insts[0][1], c=tuple(insts[0][2]), d=[1, 2])
    ctx.evaluated()
    before = (x.a, x.b, x.c, x.d, set(x.__pane_set__))
    (k, r) = outcome(lambda: setattr(x, 'a', 7))
    if frozen:
        if k == 'ok' or (x.a, x.b, x.c, x.d, set(x.__pane_set__)) != before:
            ctx.fail('frozen', 'assignment', f"{ident}; assignment to a frozen instance {'succeeded' if k == 'ok' else 'changed it'}")
            return
    else:
        if k != 'ok' or x.a != 7 or 'a' not in x.__pane_set__:
            ctx.fail('frozen', 'mutable-assignment', f"{ident}; assignment on a non-frozen instance failed or was not recorded: {r!r}")
            return
        object.__setattr__(x, 'a', before[0])
    (k, r) = outcome(lambda: delattr(x, 'b'))
    if frozen and (k == 'ok' or not hasattr(x, 'b')):
        ctx.fail('frozen', 'deletion', f"{ident}; deleting a field of a frozen instance succeeded")
        return
    if not hasattr(x, 'b'):
        return

    # ---- copy / deepcopy / replace ---------------------------------------------------------------
    y = PM(a=insts[1][0], b=insts[1][1], c=tuple(insts[1][2]))       # d not supplied
    if isinstance(getattr(y, 'd', None), list):
        y.d.append(7)      # a defaulted list filled in after construction: part of the value, though not of the set-field record
    for src in (x, y):
        for (what, f) in (('copy', copy.copy), ('deepcopy', copy.deepcopy), ('__replace__()', lambda o: o.__replace__())):
            ctx.evaluated()
            (k, cp) = outcome(lambda: f(src))
            if k != 'ok':
                ctx.fail('copy', f"{what}:{type(cp).__name__}", f"{ident}; {what} of {src!r} raised {type(cp).__name__}: {str(cp)[:120]}")
                return
            try:
                differs = type(cp) is not type(src) or any(getattr(cp, n) != getattr(src, n) for n in 'abcd')
                shown = repr(cp)
            except AttributeError as e:
                (differs, shown) = (True, f"an instance with a missing field ({e})")
            if differs:
                ctx.fail('copy', what, f"{ident}; {what} of {src!r} gave {shown}")
                return
            if set(cp.__pane_set__) != set(src.__pane_set__):
                ctx.fail('copy', f"{what}:set-record", f"{ident}; {what} of {src!r} has set-field record {sorted(cp.__pane_set__)}, original {sorted(src.__pane_set__)}")
                return
            if what == 'deepcopy' and cp.d is src.d:
                ctx.fail('copy', 'deepcopy-shares', f"{ident}; deepcopy shares the list field with the original")
                return
    if default_point:
        # a field pane leaves to the class (init=False, no default) and which nothing has filled in yet: the instance is a value
        # like any other - its copies are equal instances (lacking the same attribute), as its replace() already is
        if 'late' not in _CACHE:
            _CACHE['late'] = type('LateCls', (pane.PaneBase,), {'__annotations__': {'a': int, 'late': int}, 'late': pane.field(init=False)})
        L = _CACHE['late']
        z = L(a=insts[0][0])
        for (what, f) in (('copy', copy.copy), ('deepcopy', copy.deepcopy), ('__replace__()', lambda o: o.__replace__())):
            ctx.evaluated()
            (k, cp) = outcome(lambda: f(z))
            if k != 'ok' or type(cp) is not L or cp.a != z.a or hasattr(cp, 'late') or set(cp.__pane_set__) != {'a'}:
                ctx.fail('copy', f"{what}:unset-init-false-field", f"class LateCls(a: int, late: int = field(init=False)); {what} of LateCls(a={z.a}) "
                         f"{'raised ' + type(cp).__name__ + ': ' + str(cp)[:100] if k != 'ok' else 'gave ' + short(getattr(cp, '__dict__', cp), 100)}")
                return
    (k, rp) = outcome(lambda: y.__replace__(a=9))
    ctx.evaluated()
    if k != 'ok' or rp.a != 9 or rp.b != y.b or set(rp.__pane_set__) != set(y.__pane_set__) | {'a'}:
        ctx.fail('copy', 'replace-change', f"{ident}; {y!r}.__replace__(a=9) gave {rp!r} with set record {getattr(rp, '__pane_set__', None)}")
        return
    # the instance replace() is called on stays as it was, its record of set fields included (d was never given to y)
    (rec0, repr0) = (set(y.__pane_set__), repr(y))
    (k, rp) = outcome(lambda: y.__replace__(d=[1, 2]))
    if k != 'ok' or rp.d != [1, 2] or set(rp.__pane_set__) != rec0 | {'d'}:
        ctx.fail('copy', 'replace-change', f"{ident}; {y!r}.__replace__(d=[1, 2]) gave {rp!r} with set record {getattr(rp, '__pane_set__', None)}")
        return
    if set(y.__pane_set__) != rec0 or repr(y) != repr0:
        ctx.fail('copy', 'replace-modifies-original', f"{ident}; after y.__replace__(d=[1, 2]) the original is {y!r} with set record {sorted(y.__pane_set__)}; "
                 f"before: {repr0} with {sorted(rec0)}")
        return
    # several changes at once: each is converted as its own field's type
    (k, rp) = outcome(lambda: y.__replace__(a=8, c=[6], b='zz'))
    if k != 'ok' or (rp.a, rp.b, rp.c) != (8, 'zz', (6,)) or type(rp.a) is not int:
        ctx.fail('copy', 'replace-several', f"{ident}; __replace__(a=8, c=[6], b='zz') gave {short(rp, 100)}")
        return
    for (changes, why) in (({'a': '5', 'b': 'zz'}, 'a str for the int field a'), ({'c': 'xy', 'b': 'zz'}, 'a str for the tuple field c'),
                           ({'b': 5, 'a': 6}, 'an int for the str field b'), ({'a': 2.5, 'd': [1]}, 'a float for the int field a')):
        (k, rp) = outcome(lambda: y.__replace__(**changes))
        if k != 'ce':
            ctx.fail('copy', 'replace-validates', f"{ident}; __replace__(**{changes}) ({why}) should raise ConvertError, got {k}: {short(rp, 80)}")
            return
    (k, rp) = outcome(lambda: y.__replace__(a='not an int'))
    if k != 'ce':
        ctx.fail('copy', 'replace-validates', f"{ident}; __replace__(a='not an int') should raise ConvertError, got {k}: {short(rp, 80)}")
        return
    (k, rp) = outcome(lambda: y.__replace__(c=[4, 5]))
    if k != 'ok' or rp.c != (4, 5):
        ctx.fail('copy', 'replace-converts', f"{ident}; __replace__(c=[4, 5]) should convert the change to (4, 5), got {short(rp, 80)}")
        return

    # ---- repr ---------------------------------------------------------------------------------------
    want_r = "PaneCls(" + ", ".join(f"{n}={getattr(x, n)!r}" for (n, f) in zip('abcd', flags3) if f[2]) + ")"
    ctx.evaluated()
    if repr(x) != want_r:
        ctx.fail('repr', 'repr-fields', f"{ident}; repr is {repr(x)!r}, the repr-fields in order give {want_r!r}")


def generic_cases(shard: int, nshards: int) -> t.Iterator[t.Any]:
    i = 0
    for (eq, frozen, unsafe_hash) in itertools.product([True, False], [True, False], [False, True]):
        if i % nshards == shard:
            yield [eq, frozen, unsafe_hash]
        i += 1


_GT = t.TypeVar('_GT')
_GU = t.TypeVar('_GU')


def check_generic(case: t.Any, ctx: Ctx) -> None:
    """Equality ignores generic parameters, so hashing must too: G(1), G[int](1), G[Any](1) are equal and hash equal."""
    import pane
    import types as _types
    (eq, frozen, unsafe_hash) = case
    ctx.label(f"generic:eq={eq},frozen={frozen},unsafe_hash={unsafe_hash}")
    ctx.nontrivial(True)
    G = _types.new_class('GenBox', (pane.PaneBase, t.Generic[_GT]), {'eq': eq, 'frozen': frozen, 'unsafe_hash': unsafe_hash},
                         lambda ns: ns.update({'__annotations__': {'x': _GT, 'y': int}, 'y': 0}))
    _KEEP.append(G)
    import warnings
    with warnings.catch_warnings():
        warnings.simplefilter('ignore')
        insts = [G(1), G[int](1), G[t.Any](1), G[int](1, 0)]
        others = [G(2), G[int](2)]
    ident = f"generic dataclass with eq={eq} frozen={frozen} unsafe_hash={unsafe_hash}"
    ctx.evaluated()
    if eq:
        # ordering is consistent with equality: parametrizations of one class compare like the class itself
        for (a, b, want) in ((insts[0], insts[1], 0), (insts[1], insts[2], 0), (insts[0], others[1], -1), (others[0], insts[1], 1), (insts[1], others[0], -1)):
            (k, r) = outcome(lambda: (a < b, a <= b, a > b, a >= b))
            if k != 'ok' or r != (want < 0, want <= 0, want > 0, want >= 0):
                ctx.fail('order', 'generic-parameters', f"{ident}: {a!r} of {type(a).__name__}[{list(getattr(type(a), '__pane_boundvars__', {}).values())}] against {b!r} of "
                         f"{type(b).__name__}[{list(getattr(type(b), '__pane_boundvars__', {}).values())}]: (<, <=, >, >=) = {r if k == 'ok' else type(r).__name__}, equality says {want}")
                return
        # classes *derived* from a parametrization are classes of their own ("equality compares the class"): two of them with equal
        # fields are not equal, nor is either equal to an instance of the parametrization or of the generic class; each equals itself
        with warnings.catch_warnings():
            warnings.simplefilter('ignore')
            Cel = type('Celsius', (G[float],), {'__annotations__': {}})
            Kel = type('Kelvin', (G[float],), {'__annotations__': {}})
            (c1, c2, k1, q1, g1) = (Cel(1.0), Cel(1.0), Kel(1.0), G[float](1.0), G(1.0))
        ctx.evaluated()
        facts = outcome(lambda: (c1 == c2, c1 == k1, k1 == c1, c1 == q1, q1 == k1, g1 == c1, c1 != k1))
        if facts != ('ok', (True, False, False, False, False, False, True)):
            ctx.fail('equality', 'derived-from-parametrization', f"{ident}: class Celsius(GenBox[float]), class Kelvin(GenBox[float]): (C==C, C==K, K==C, C==GenBox[float], "
                     f"GenBox[float]==K, GenBox==C, C!=K) = {facts[1]!r}; expected (True, False, False, False, False, False, True)")
            return
        (ko, ro) = outcome(lambda: c1 < k1)
        if ko == 'ok':
            ctx.fail('order', 'derived-from-parametrization', f"{ident}: Celsius(1.0) < Kelvin(1.0) gave {ro!r}; instances of different classes are not ordered (TypeError)")
            return
        # ... however the parametrization was arrived at: P[str, V][int] is P[str, int]
        P = _types.new_class('GenPair', (pane.PaneBase, t.Generic[_GT, _GU]), {'eq': eq, 'frozen': frozen, 'unsafe_hash': unsafe_hash},
                             lambda ns: ns.update({'__annotations__': {'x': _GT, 'y': _GU}}))
        _KEEP.append(P)
        with warnings.catch_warnings():
            warnings.simplefilter('ignore')
            trio = [P[str, _GU][int]('a', 1), P[str, int]('a', 1), P('a', 1)]
        for a in trio:
            for b in trio:
                if not (a == b) or (a != b) or (a < b) or not (a <= b):
                    ctx.fail('equality', 'generic-reparametrized', f"{ident}: GenPair[str, U][int]('a', 1), GenPair[str, int]('a', 1) and GenPair('a', 1) should all be equal "
                             f"(and neither less than another): classes {type(a).__mro__[:3]} vs {type(b).__mro__[:3]}: == {a == b}, < {outcome(lambda: a < b)[1]}")
                    return
        if frozen and not unsafe_hash:
            # an explicit __hash__ / __eq__ written in the class body belongs to every parametrization too
            H = _types.new_class('GenHash', (pane.PaneBase, t.Generic[_GT]), {'eq': eq, 'frozen': frozen},
                                 lambda ns: ns.update({'__annotations__': {'x': _GT}, '__hash__': _user_hash}))
            _KEEP.append(H)
            with warnings.catch_warnings():
                warnings.simplefilter('ignore')
                hs_ = [hash(H(1)), hash(H[int](1)), hash(H[t.Any](1))]
            if hs_ != [42, 42, 42]:
                ctx.fail('eq-implies-hash', 'generic-explicit-hash', f"{ident}: class body defines __hash__ (returns 42); hash of GenHash(1), GenHash[int](1), GenHash[Any](1) = {hs_}; "
                         f"the three compare equal: {H(1) == H[int](1)}")
                return
    if eq:
        for a in insts:
            for b in insts:
                if not (a == b) or (a != b):
                    ctx.fail('equality', 'generic-parameters', f"{ident}: {a!r} (class {type(a).__name__}[{getattr(type(a), '__pane_boundvars__', {})}]) != an equal instance of another parametrisation")
                    return
        if any(a == o for a in insts for o in others):
            ctx.fail('equality', 'generic-parameters', f"{ident}: instances with different fields compare equal")
            return
    try:
        hs = [hash(a) for a in insts]
    except TypeError:
        ctx.label('generic:unhashable')
        return
    if eq and len(set(hs)) != 1:
        ctx.fail('eq-implies-hash', 'generic-parameters', f"{ident}: G(1), G[int](1), G[Any](1) compare equal but hash to {len(set(hs))} different values "
                 f"(len({{...}}) of the three is {len(set(insts))})")


# ---- equal instances hash equal *at every moment*: histories of hash / modify / compare ------------------------------
#
# A hash computed once and remembered is only right for an object that cannot change.  Three legitimate ways a pane
# instance with a field hash changes: (a) a non-frozen class with unsafe_hash=True, (b) a non-frozen subclass of a frozen
# class that keeps the parent's hash (explicitly, or by inheriting __eq__ and __hash__ with eq=False), (c) a frozen
# class holding a hashable-but-mutable member that is modified in place.  The history is plain data.

HIST_SCENARIOS = ['unsafe-hash', 'unfrozen-subclass-explicit-hash', 'unfrozen-subclass-inherited', 'mutable-member', 'mutable-member-nested']


def _hist_classes(scn: str) -> t.Tuple[t.Any, t.Callable[[int, int], t.Any], t.Callable[[t.Any, int], None]]:
    """-> (class, make(v, w), modify(instance, v))"""
    import pane
    key = 'hist:' + scn
    if key in _CACHE:
        return _CACHE[key]
    def mk(name: str, bases: t.Tuple[t.Any, ...], ann: t.Dict[str, t.Any], extra: t.Dict[str, t.Any], **opts: t.Any) -> t.Any:
        # (real type objects in __annotations__: this module's annotations are strings, which local classes could not be resolved from)
        return type(name, bases, {'__annotations__': ann, **extra}, **opts)
    if scn == 'unsafe-hash':
        Rec = mk('Rec', (pane.PaneBase,), {'v': int, 'w': int}, {'w': 0}, frozen=False, unsafe_hash=True)
        out = (Rec, lambda v, w: Rec(v, w), lambda x, v: setattr(x, 'v', v))
    elif scn in ('unfrozen-subclass-explicit-hash', 'unfrozen-subclass-inherited'):
        Point = mk('Point', (pane.PaneBase,), {'v': int, 'w': int}, {'w': 0}, frozen=True)
        if scn == 'unfrozen-subclass-explicit-hash':
            Mut = mk('Mut', (Point,), {}, {'__hash__': Point.__hash__}, frozen=False)
        else:
            Mut = mk('Mut', (Point,), {}, {}, frozen=False, eq=False)
        out = (Mut, lambda v, w: Mut(v, w), lambda x, v: setattr(x, 'v', v))
        _KEEP.append(Point)
    else:
        Cell = mk('Cell', (pane.PaneBase,), {'v': int}, {}, frozen=False, unsafe_hash=True)
        if scn == 'mutable-member':
            Box = mk('Box', (pane.PaneBase,), {'cell': Cell, 'w': int}, {'w': 0}, frozen=True)
            out = (Box, lambda v, w: Box(Cell(v), w), lambda x, v: setattr(x.cell, 'v', v))
        else:
            Box = mk('Box', (pane.PaneBase,), {'cells': t.Tuple[Cell, ...], 'w': int}, {'w': 0}, frozen=True)
            out = (Box, lambda v, w: Box((Cell(v), Cell(0)), w), lambda x, v: setattr(x.cells[0], 'v', v))
        _KEEP.append(Cell)
    _KEEP.append(out[0])
    _CACHE[key] = out
    return out


@st.composite
def history_cases(draw) -> t.Any:
    scn = draw(st.sampled_from(HIST_SCENARIOS))
    ops = draw(st.lists(st.one_of(st.just(['hash']), st.just(['hash']), st.tuples(st.just('set'), st.integers(0, 2)).map(list), st.just(['copy']),
                                  st.just(['in-set'])), min_size=1, max_size=6))
    return [scn, draw(st.integers(0, 2)), draw(st.integers(0, 1)), ops]


def check_history(case: t.Any, ctx: Ctx) -> None:
    (scn, v0, w, ops) = case
    (cls, make, modify) = _hist_classes(scn)
    x = make(v0, w)
    cur = v0
    hashed = modified_after_hash = False
    ctx.label(f"scenario:{scn}")
    (kh, eh) = outcome(lambda: hash(x))
    if kh != 'ok':
        # each of these configurations gets a field hash by the rule table (frozen + eq, unsafe_hash, or an inherited one)
        ctx.fail('hash-table', f"unhashable:{scn}", f"{scn}: hash({x!r}) raised {type(eh).__name__}: {eh}")
        return
    for (i, op) in enumerate(ops):
        ctx.evaluated()
        ident = f"{scn}: x = {make(v0, w)!r}; operations {ops[:i + 1]}"
        if op[0] == 'hash':
            hash(x)
            hashed = True
        elif op[0] == 'set':
            (k, e) = outcome(lambda: modify(x, op[1]))
            if k != 'ok':
                ctx.fail('frozen', f'modification-refused:{scn}', f"{ident}; the permitted modification raised {type(e).__name__}: {e}")
                return
            if hashed and op[1] != cur:
                modified_after_hash = True
            cur = op[1]
        elif op[0] == 'copy':
            x = copy.copy(x) if scn not in ('mutable-member', 'mutable-member-nested') else x
        fresh = make(cur, w)
        if op[0] == 'in-set':
            if fresh not in {x}:
                ctx.fail('eq-implies-hash', f'set-lookup:{scn}', f"{ident}; an equal, freshly built instance {fresh!r} is not found in {{x}}")
                return
        if not (x == fresh):
            ctx.fail('equality', f'after-modification:{scn}', f"{ident}; x is now {x!r} but does not equal a freshly built {fresh!r}")
            return
        if hash(x) != hash(fresh):
            ctx.fail('eq-implies-hash', f'after-modification:{scn}', f"{ident}; x = {x!r} equals a freshly built instance but hash(x) = {hash(x)} != {hash(fresh)}")
            return
    ctx.nontrivial(modified_after_hash)


# ---- fields that are not totally ordered -----------------------------------------------------------------------------------
#
# "ordering is the lexicographic order of the compare-fields": x < y iff at the first compare-field where they differ (!=) the
# field of x is < that of y; x <= y iff there is no such field or x's is <= y's.  With totally ordered fields that is the
# trichotomy checked above; with sets (ordered by inclusion) or NaN two values may be neither ==, < nor >, and then neither
# instance is below the other - an implementation that derives "<" from "not >" says both are.

_PO: t.Dict[str, t.Any] = {}
_PO_VALUES = {
    'x': [0.0, 1.0, -0.0, float('nan'), float('inf')],
    's': [frozenset(), frozenset({1}), frozenset({2}), frozenset({1, 2})],
    'n': [0, 1],
}


def _po_class(flags: t.Tuple[bool, ...]) -> t.Any:
    import pane
    key = repr(flags)
    if key not in _PO:
        ns: t.Dict[str, t.Any] = {'__annotations__': {'x': float, 's': t.FrozenSet[int], 'n': int}}
        for (n, cmp_) in zip('xsn', flags):
            if not cmp_:
                ns[n] = pane.field(compare=False)
        _PO[key] = type('PartialCls', (pane.PaneBase,), ns, order=True)
    return _PO[key]


@st.composite
def po_cases(draw) -> t.Any:
    flags = [draw(st.booleans()) or draw(st.booleans()) for _ in range(3)]
    vals = [[draw(st.integers(0, len(_PO_VALUES[n]) - 1)) for n in 'xsn'] for _ in range(2)]
    return [flags, vals]


def check_partial(case: t.Any, ctx: Ctx) -> None:
    import operator
    (flags, vals) = case
    cls = _po_class(tuple(flags))
    (a, b) = (cls.make_unchecked(**{n: _PO_VALUES[n][i] for (n, i) in zip('xsn', v)}) for v in vals)
    cmp_fields = [n for (n, f) in zip('xsn', flags) if f]
    ctx.label(f"compare-fields:{''.join(cmp_fields) or '-'}")
    incomparable = any(not (getattr(a, n) == getattr(b, n) or getattr(a, n) < getattr(b, n) or getattr(a, n) > getattr(b, n)) for n in cmp_fields)
    ctx.nontrivial(incomparable)
    for (sym, op, at_end) in (('<', operator.lt, False), ('<=', operator.le, True), ('>', operator.gt, False), ('>=', operator.ge, True)):
        want = at_end
        for n in cmp_fields:
            (u, v) = (getattr(a, n), getattr(b, n))
            if u is v or u == v:       # (as Python's own sequences compare their items: identical items are equal, NaN included)
                continue
            want = bool(op(u, v))
            break
        ctx.evaluated()
        (k, got) = outcome(lambda: op(a, b))
        if k != 'ok' or got is not want:
            ctx.fail('ordering', 'lexicographic:partially-ordered-fields', f"compare-fields {cmp_fields}: {a!r} {sym} {b!r} is {got!r}, the lexicographic order "
                     f"of the compare-fields gives {want}")
            return
    # an instance is equal to itself and to its copies, whatever its fields hold (a NaN is not equal to itself, but it is the same value)
    for (what, f) in (('itself', lambda o: o), ('copy', copy.copy), ('deepcopy', copy.deepcopy), ('__replace__()', lambda o: o.__replace__())):
        ctx.evaluated()
        (k, c) = outcome(lambda: f(a))
        (k2, eq) = outcome(lambda: (c == a, a == c, c <= a, c >= a, c < a, c > a)) if k == 'ok' else ('-', None)
        if k != 'ok' or k2 != 'ok' or eq != (True, True, True, True, False, False):
            ctx.fail('copy', f"equal-to-{what}:special-values", f"{a!r}: compared with {what} ({short(c, 80)}): (==, ==, <=, >=, <, >) = {eq!r}; expected (True, True, True, True, False, False)")
            return


# ---- frozen along inheritance chains ------------------------------------------------------------------------------------------
#
# "Frozen instances reject attribute assignment and deletion": frozen is an option of the class the instance belongs to (own
# or inherited), whatever its bases were - a frozen class derived from a non-frozen one rejects, a non-frozen one derived from a
# frozen one accepts (and records the field), parametrizations behave like their class.

FROZEN_CHAINS = [
    ('frozen-from-mutable', [('M', False), ('F', True)]),
    ('mutable-from-frozen', [('F', True), ('M', False)]),
    ('frozen-mutable-frozen', [('A', True), ('M', False), ('F', True)]),
    ('inherits-mutable', [('M', False), ('S', None)]),
    ('inherits-frozen', [('F', True), ('S', None)]),
    ('mutable-frozen-inherit', [('M', False), ('F', True), ('S', None)]),
]


def frozen_cases(shard: int, nshards: int) -> t.Iterator[t.Any]:
    i = 0
    for (name, _) in FROZEN_CHAINS:
        for generic in (False, True):
            if i % nshards == shard:
                yield [name, generic]
            i += 1


def check_frozen_chain(case: t.Any, ctx: Ctx) -> None:
    import pane
    import types as _types
    from dataclasses import FrozenInstanceError
    (name, generic) = case
    chain = dict(FROZEN_CHAINS)[name]
    ctx.label(name, 'generic' if generic else 'plain')
    ctx.nontrivial(True)
    T = t.TypeVar('T')
    cls: t.Any = None
    frozen = True       # pane's default
    for (i, (cn, fr)) in enumerate(chain):
        bases: t.Tuple[t.Any, ...] = (pane.PaneBase, t.Generic[T]) if (cls is None and generic) else ((pane.PaneBase,) if cls is None else (cls,))   # type: ignore
        kw = {} if fr is None else {'frozen': fr}
        ann = {f"f{i}": (T if (generic and i == 0) else int)}
        cls = _types.new_class(cn, bases, kw, lambda ns, ann=ann, i=i: ns.update({'__annotations__': ann, f"f{i}": 0} if not (generic and i == 0) else {'__annotations__': ann}))
        if fr is not None:
            frozen = fr
    final = cls[int] if generic else cls
    kwargs = {'f0': 1} if generic else {}
    for target in ([final] + ([type('Leaf', (final,), {'__annotations__': {}})] if generic else [])):
        x = target(**kwargs)
        for fname in (f"f{len(chain) - 1}", 'f0'):
            ctx.evaluated()
            before = (getattr(x, fname), set(x.__pane_set__))
            (k, r) = outcome(lambda: setattr(x, fname, 41))
            after = (getattr(x, fname), set(x.__pane_set__))
            ident = f"chain {[(c, 'default' if f is None else f) for (c, f) in chain]}{' (first class generic, instance of its [int])' if generic else ''}: assigning {fname} on a {target.__name__} instance"
            if frozen:
                if k == 'ok' or after != before or not isinstance(r, FrozenInstanceError):
                    ctx.fail('frozen', 'inherited-option:assignment-accepted', f"{ident} {'succeeded' if k == 'ok' else 'raised ' + type(r).__name__}; the class is frozen (value / record now {after}, before {before})")
                    return
            else:
                if k != 'ok' or after != (41, before[1] | {fname}):
                    ctx.fail('frozen', 'inherited-option:assignment-refused', f"{ident} gave {r!r}; the class is not frozen: the value should be 41 and the record gain {fname!r} (now {after}, before {before})")
                    return
                object.__setattr__(x, fname, before[0])
                x.__pane_set__.discard(fname) if fname not in before[1] else None


# ---- repr after a repr that failed ---------------------------------------------------------------------------------------------------
#
# "repr lists the repr-fields in order" is a statement about the instance as it is *now*: a repr which raised earlier (a field that
# was not set yet, a field value whose own repr raised) leaves nothing behind.

def reprfail_cases(shard: int, nshards: int) -> t.Iterator[t.Any]:
    i = 0
    for trigger in ('unset-init-false-field', 'field-value-repr-raises'):
        for times in (1, 3):
            for where in ('bare', 'in-list', 'as-field'):
                if i % nshards == shard:
                    yield [trigger, times, where]
                i += 1


def check_reprfail(case: t.Any, ctx: Ctx) -> None:
    import copy
    import pane
    (trigger, times, where) = case

    class Moody:
        def __init__(self) -> None:
            self.bad = True

        def __repr__(self) -> str:
            if self.bad:
                raise RuntimeError('no repr today')
            return 'Moody()'

        def __eq__(self, other: t.Any) -> bool:
            return isinstance(other, Moody)

        __hash__ = None     # type: ignore
    if trigger == 'unset-init-false-field':
        Account = type('Account', (pane.PaneBase,), {'__annotations__': {'owner': str, 'balance': int}, 'balance': pane.field(init=False)}, frozen=False)
        a = Account(owner='ann')
    else:
        Account = type('Account', (pane.PaneBase,), {'__annotations__': {'owner': str, 'balance': t.Any}}, frozen=False)
        a = Account.make_unchecked(owner='ann', balance=Moody())
    Holder = type('Holder', (pane.PaneBase,), {'__annotations__': {'acct': t.Any}})
    outer: t.Any = {'bare': a, 'in-list': [a], 'as-field': Holder.make_unchecked(acct=a)}[where]
    ctx.label(f"repr-after-failure:{trigger}", where)
    ctx.nontrivial(True)
    raised = 0
    for _ in range(times):
        try:
            repr(outer)
        except (AttributeError, RuntimeError):
            raised += 1
    if raised != times:
        return      # (whether such an instance can be printed at all is not this check's subject)
    if trigger == 'unset-init-false-field':
        a.balance = 10
        want = "Account(owner='ann', balance=10)"
    else:
        a.balance.bad = False
        want = "Account(owner='ann', balance=Moody())"
    ctx.evaluated(2)
    got = repr(a)
    got_copy = repr(copy.copy(a))
    if got != want or got_copy != want:
        ctx.fail('repr', 'repr-after-failed-repr', f"class Account(owner: str, balance), not frozen; repr raised {times} time(s) ({trigger}, {where}); afterwards repr is "
                 f"{got!r}, of an equal copy {got_copy!r}; the repr-fields in order give {want!r}")


def suites(tier: str) -> t.List[Suite]:
    big = tier == 'thorough'
    return [
        Suite('cube', check, cases=cube_cases, exhaustive=True, budget_s=300, render=render),
        Suite('generic', check_generic, cases=generic_cases, exhaustive=True, budget_s=60),
        Suite('flags', check, strategy=cases, examples=6000 if big else 400, budget_s=300 if big else 30, render=render),
        Suite('repr-after-failure', check_reprfail, cases=reprfail_cases, exhaustive=True, budget_s=30, render=lambda c: {'trigger': c[0], 'failed reprs': c[1], 'where': c[2]}),
        Suite('frozen-chains', check_frozen_chain, cases=frozen_cases, exhaustive=True, budget_s=30, render=lambda c: {'chain': c[0], 'generic': c[1]}),
        Suite('partial-order', check_partial, strategy=po_cases, examples=3000 if big else 300, budget_s=60 if big else 10,
              render=lambda c: {'compare flags (x: float, s: FrozenSet[int], n: int)': c[0], 'value indices': c[1]}),
        Suite('hash-history', check_history, strategy=history_cases, examples=2000 if big else 150, budget_s=120 if big else 15,
              render=lambda c: {'scenario': c[0], 'first value': c[1], 'operations': c[3]}),
    ]
