"""
C11  Untagged unions: the left-most accepting member wins.

Unions are drawn to *overlap* (int/float/complex/bool, str vs parse-from-string
scalars, List vs tuple-layout dataclass vs Tuple[T, ...], dataclasses sharing
field names, Optionals of unions).  Oracles:
  (1) from_data(v, U) succeeds iff some member alone accepts v, and the result is the
      same as from_data(v, M_i) for the left-most such i (pane on the member; the
      reference interpreter cross-checks the chosen index where it is specified);
  (2) every spelling of the union (flat, nested through a constrained TypeVar, wrapped in
      Optional, nested Union the typing module flattens) gives the same outcome;
  (3) into_data(x, U) equals into_data(x, M_j) for a member j whose own fast pass accepts x.
"""

from __future__ import annotations

import typing as t

from hypothesis import strategies as st

from ..core import Suite, Ctx
from .. import tg, cg, gen
from ..same import same
from ..codec import short
from ..oracles import outcome

ID = 'C11'
RULE = ("Hypothesis: unions of 2-5 members drawn from overlapping families (numeric, string-parsed, sequence-like incl. tuple-layout "
        "dataclasses, mapping-like incl. dataclasses sharing field names, None) in four spellings; values from each member's generator, "
        "optionally mutated. Non-trivial = at least two members accept the value on their own; distinct by (members, value).")
ASSUMPTIONS = [
    "member acceptance is taken from pane's own conversion to the member type (C01 checks those verdicts); the reference index is compared only when specified",
    "unions with duplicate members are not generated (typing de-duplicates them)",
]

S = lambda n: ('s', n)  # noqa: E731
NUMERIC = [S('int'), S('float'), S('complex'), S('bool'), S('Fraction'), S('Decimal'), ('sub', 'int'), ('sub', 'float'),
           ('enum', 'IntE'), ('enum', 'IE'), ('enum', 'FloatE'), ('enum', 'BoolE'), ('lit', (0, 1)), ('lit', (False, True)),
           ('lit', (2,)), ('lit', (5, 7)), ('lit', (2.5,)), ('enum', 'IE0'), ('enum', 'FE0'),
           ('ann', S('int'), (('Positive',),)), ('ann', S('float'), (('val_range', 0, 5),))]
STRINGY = [S('str'), S('Fraction'), S('Decimal'), S('date'), S('time'), S('datetime'), S('PurePosixPath'), S('Path'), S('rePattern'),
           ('enum', 'SE'), ('enum', 'StrE'), ('lit', ('a', 'x')), ('sub', 'str'), S('bytes'), S('bytearray'), ('sub', 'bytes'),
           ('lit', ('auto',)), ('lit', ('1/2', 'red')), ('lit', (b'ab',)), ('enum', 'SE0')]
SEQS = [('seq', 'List', S('int')), ('seq', 'TupleVar', S('float')), ('seq', 'Set', S('int')), ('seq', 'Sequence', S('any')),
        ('tup', 'Tuple', (S('int'), S('int'))), ('tup', 'tuple', (S('float'), S('str'))), ('vol', S('int')), ('seq', 'list_bare'),
        ('seq', 'Deque', S('bool')), ('nd', 'int64'), ('nd', None)]
MAPS = [('map', 'Dict', S('str'), S('int')), ('map', 'Mapping', S('str'), S('any')), ('map', 'dict_bare'), ('map', 'Counter', S('str')),
        ('struct', (('x', S('int')),)) ]


def _cls(fields: t.List[t.Dict[str, t.Any]], **opts: t.Any) -> t.Any:
    return ('cls', {'fields': fields, 'opts': opts})


CLASSES = [
    _cls([{'name': 'x', 'type': S('int')}, {'name': 'y', 'type': S('int'), 'default': ['value', 0]}], in_format=['tuple', 'struct']),
    _cls([{'name': 'x', 'type': S('float')}, {'name': 'y', 'type': S('float'), 'default': ['value', 1.5]}], in_format=['struct', 'tuple']),
    _cls([{'name': 'x', 'type': S('int')}]),
    _cls([{'name': 'x', 'type': S('any')}, {'name': 'zed', 'type': S('str'), 'default': ['value', 'd']}], allow_extra=True),
    _cls([{'name': 'x', 'type': S('str')}, {'name': 'y', 'type': S('str')}], in_format=['tuple']),
]
# struct/tuple literals cannot be union members (typing rejects them); drop the struct literal
MAPS = [m for m in MAPS if m[0] != 'struct']
# members whose *image types* are subclasses of one another (datetime < date, bool < int, IntEnum < int, PosixPath < PurePosixPath,
# OrderedDict / Counter / defaultdict < dict): a converter that recognises typed values with isinstance claims its neighbour's values
TEMPORAL = [S('date'), S('time'), S('datetime'), S('str'), ('map', 'Dict', S('str'), S('datetime')), ('map', 'Dict', S('str'), S('date')),
            ('cls', {'fields': [{'name': 'x', 'type': S('date')}], 'opts': {}}), ('cls', {'fields': [{'name': 'x', 'type': S('time')}], 'opts': {}})]
SUBTYPED = [S('int'), S('bool'), ('enum', 'IE'), ('enum', 'IE0'), ('sub', 'int'), S('float'), ('sub', 'float'), ('enum', 'FE0')]
PATHS = [S('PurePosixPath'), S('Path'), S('PurePath'), S('str'), S('PathLike')]
MAPS2 = [('map', 'Dict', S('str'), S('int')), ('map', 'OrderedDict', S('str'), S('int')), ('map', 'Counter', S('str')),
         ('map', 'DefaultDict', S('str'), S('int')), ('map', 'Mapping', S('str'), S('int'))]


def _tagged(layout: t.Any, tagname: str, tags: t.Sequence[t.Any]) -> t.Any:
    # variants that differ in nothing but the tag: only dispatch by tag tells them apart, structural trial picks the first
    variants = tuple({'fields': [{'name': tagname, 'type': ('lit', (tg_,)), 'default': ['value', tg_]},
                                 {'name': 'size', 'type': S('float'), 'default': ['value', 1.0]}],
                      'opts': {}, 'name': f"Shape{i}{str(layout)[:3]}{tagname}", **({'annotated': True} if i == 0 and len(tags) == 3 else {})}
                     for (i, tg_) in enumerate(tags))
    return ('tagged', layout, tagname, variants)


# a tagged union as one member of an untagged union: dispatch inside it stays by tag, and its values are serialised in tagged form
TAGGED = [_tagged('internal', 'kind', ('circle', 'square')), _tagged('external', 'kind', ('circle', 'square')),
          _tagged(['adjacent', 't', 'c'], 'kind', ('circle', 'square')), _tagged('external', 'ty', (1, 2, 3)),
          ('map', 'Dict', S('str'), S('any')), S('none'), ('seq', 'List', S('int')), CLASSES[3], S('str'),
          # containers of tagged unions: the union must serialise them through the member (tagged form), not by runtime type
          ('seq', 'FrozenSet', _tagged('external', 'kind', ('circle', 'square'))), ('seq', 'Set', _tagged(['adjacent', 't', 'c'], 'kind', ('circle', 'square'))),
          ('seq', 'List', _tagged('external', 'kind', ('circle', 'square'))), ('vol', _tagged('external', 'kind', ('circle', 'square')))]
# members that recognise a typed value by comparing it (literals, enums) next to values whose == is not a bool (arrays)
ARRAYS = [('lit', (None, True)), ('lit', (1, 2)), ('enum', 'IntE'), ('nd', 'int64'), ('nd', None), ('seq', 'List', S('int')), S('int'), S('none'),
          ('enum', 'IE0'), ('lit', ('a', 'x'))]
# parametrizations of one generic dataclass: equal up to type parameters, but different types with different field converters
GENERICS = [('gbox', S('int')), ('gbox', S('float')), ('gbox', S('str')), ('gbox', ('seq', 'List', S('int'))), ('gbox', S('bool')),
            ('map', 'Dict', S('str'), S('float')), S('none')]
FAMILIES = {'generics': GENERICS, 'arrays': ARRAYS, 'tagged': TAGGED, 'temporal': TEMPORAL, 'subtyped': SUBTYPED, 'paths': PATHS, 'maps2': MAPS2, 'numeric': NUMERIC, 'stringy': STRINGY, 'seq': SEQS + CLASSES, 'map': MAPS + CLASSES, 'mixed': NUMERIC + STRINGY + SEQS + MAPS + CLASSES + [S('none'), S('any')]}


@st.composite
def cases(draw) -> t.Any:
    fam = draw(st.sampled_from(sorted(FAMILIES)))
    members = draw(st.lists(st.sampled_from(FAMILIES[fam]), min_size=2, max_size=5, unique_by=repr))
    if draw(st.integers(0, 4)) == 4 and S('none') not in members:
        members.insert(draw(st.integers(0, len(members))), S('none'))
    src = tg.node(draw(st.sampled_from(members)))
    v = draw(src.valid())
    cls_ms = [m for m in members if m[0] == 'cls']
    map_ms = [m for m in members if m[0] == 'map' and len(m) == 4]
    if cls_ms and map_ms and draw(st.integers(0, 2)) == 2:
        # a mapping shaped like the dataclass member (its field names as keys) whose values are the mapping member's:
        # both members look at the same data, and afterwards at the same typed value
        vnode = tg.node(draw(st.sampled_from(map_ms))[3])
        v = {f['name']: draw(vnode.valid()) for f in draw(st.sampled_from(cls_ms))[1]['fields']}
    if draw(st.integers(0, 3)) == 3:
        v = gen.mutate(draw, v, [])
    if draw(st.booleans()):
        v = gen.reshape_all(draw, v)
    # further values for the *same* union type object, each built from some member: the answer for a value must not
    # depend on what the union converted before
    more = [draw(tg.node(draw(st.sampled_from(members))).valid()) for _ in range(draw(st.integers(0, 3)))]
    return [list(members), v, more]


def spellings(members: t.Sequence[t.Any]) -> t.Dict[str, t.Any]:
    out: t.Dict[str, t.Any] = {'flat': ('union', 'Union', tuple(members))}
    if len(members) >= 3:
        out['nested-typevar'] = ('union', 'Union', (members[0], ('tv', 'constrained', tuple(members[1:]))))
        out['nested-union'] = ('union', 'Union', (members[0], ('union', 'Union', tuple(members[1:]))))
        out['annotated-tail'] = ('union', 'Union', (*members[:-2], ('ann', ('union', 'Union', tuple(members[-2:])), (('len_range', None, None),))))
    if S('none') in members:
        rest = [m for m in members if m != S('none')]
        if members[-1] == S('none'):
            out['optional'] = ('union', 'Optional', tuple(rest))
        if members[0] == S('none'):
            out['optional-first'] = ('union', 'OptionalFirst', tuple(rest))
    return out


def render(case: t.Any) -> t.Any:
    (members, v) = case[:2]
    return {'union': tg.node(('union', 'Union', tuple(members))).render(), 'value': short(v, 200)}


def check(case: t.Any, ctx: Ctx) -> None:
    import pane
    from pane.convert import make_converter
    from pane.errors import ParseInterrupt
    (members, v) = case[:2]
    mnodes = [tg.node(m) for m in members]
    U = tg.node(('union', 'Union', tuple(members)))
    UT = U.pytype()
    more = case[2] if len(case) > 2 else []
    if more:
        # warm the union's converter with the other values first, then again afterwards (see end of check)
        for w in more:
            outcome(lambda: pane.from_data(w, UT))
    ident = f"U = {U.render()[:300]}; v = {short(v, 150)}"

    per = [outcome(lambda m=m: pane.from_data(v, m.pytype())) for m in mnodes]
    if any(k == 'exc' for (k, _) in per):
        ctx.exclude('a member conversion raised another exception (C04)')
        return
    accepting = [i for (i, (k, _)) in enumerate(per) if k == 'ok']
    ctx.label(f"accepting:{min(len(accepting), 3)}", f"members:{len(members)}")
    ctx.nontrivial(len(accepting) >= 2)
    (k, got) = outcome(lambda: pane.from_data(v, UT))
    ctx.evaluated()
    if k == 'exc':
        ctx.fail('union-total', type(got).__name__, f"{ident}; from_data raised {type(got).__name__}: {str(got)[:200]}")
        return
    if not accepting:
        if k == 'ok':
            ctx.fail('accepts-iff-member', 'union', f"{ident}; no member accepts the value on its own but the union returned {short(got, 150)}")
            return
    else:
        i = accepting[0]
        if k != 'ok':
            ctx.fail('accepts-iff-member', 'union', f"{ident}; member {i} ({mnodes[i].render()}) accepts the value but the union refused it: {str(got)[:200]}")
            return
        d = same(got, per[i][1])
        if d is not None:
            later = [j for j in accepting[1:] if same(got, per[j][1]) is None]
            ctx.fail('leftmost-wins', 'union', f"{ident}; left-most accepting member is {i} ({mnodes[i].render()}) giving {short(per[i][1], 100)}, "
                     f"the union returned {short(got, 100)}" + (f" (= member {later[0]}'s result)" if later else '') + f": {d}")
            return
        # cross-check the index with the reference where it is specified
        (r, idx) = U.ref_index(v)
        if isinstance(r, tg.Acc) and idx is not None and idx != i and not any(isinstance(m.ref(v), tg.Unspec) for m in mnodes[:max(i, idx) + 1]):
            ctx.fail('leftmost-wins', 'reference-index', f"{ident}; pane's left-most accepting member is {i}, the reference says {idx}")
            return

    # (1b) the other values, through the same (now used) union type object
    for w in more:
        perw = [outcome(lambda m=m: pane.from_data(w, m.pytype())) for m in mnodes]
        if any(kk == 'exc' for (kk, _) in perw):
            continue
        acc_w = [j for (j, (kk, _)) in enumerate(perw) if kk == 'ok']
        (kw, gw) = outcome(lambda: pane.from_data(w, UT))
        ctx.evaluated()
        if kw == 'exc' or (kw == 'ok') != bool(acc_w) or (acc_w and same(gw, perw[acc_w[0]][1]) is not None):
            ctx.fail('leftmost-wins', 'after-other-values', f"U = {U.render()[:300]}; after converting {short(v, 60)} and {[short(x, 40) for x in more]} through the same union type, "
                     f"{short(w, 80)} gives {kw} {short(gw, 80)}; its left-most accepting member ({acc_w[:1]}) gives {short(perw[acc_w[0]][1], 80) if acc_w else 'a rejection'}")
            return

    # (2) spellings
    for (name, spec) in spellings(members).items():
        if name == 'flat':
            continue
        sp = tg.node(spec)
        (k2, got2) = outcome(lambda: pane.from_data(v, sp.pytype()))
        ctx.evaluated()
        if k2 != k or (k == 'ok' and same(got2, got) is not None):
            ctx.fail('spelling-independent', name, f"{ident}; spelled {sp.render()[:200]} the outcome is {k2} {short(got2, 100) if k2 == 'ok' else ''}, "
                     f"flat it is {k} {short(got, 100) if k == 'ok' else ''}")
            return
        ctx.label(f"spelling:{name}")

    # (3) serialisation uses a member that accepts the value
    if k == 'ok':
        x = got
        (ks, d_u) = outcome(lambda: pane.into_data(x, UT))
        ctx.evaluated()
        if ks != 'ok':
            ctx.fail('serialise-by-accepting-member', type(d_u).__name__, f"{ident}; x = {short(x, 100)}; into_data(x, U) raised {type(d_u).__name__}: {str(d_u)[:200]}")
            return
        ok_members = []
        loose: t.List[t.Any] = []
        # (exotic containers and arrays kept at Any positions do not survive any serialisation: the stricter notion of "accepts"
        #  below is applied when the typed value is what plain data gives)
        (kp, xp) = outcome(lambda: pane.from_data(tg.plainify(v), UT))
        strict = kp == 'ok' and same(xp, x) is None
        for (j, m) in enumerate(mnodes):
            conv = make_converter(m.pytype())
            try:
                conv.try_convert(x)
            except Exception:
                continue
            (kj, d_j) = outcome(lambda: conv.into_data(x))
            if kj != 'ok':
                continue
            # "accepts" in the public sense as well: what the member writes for x reads back, through that member alone, as x
            # (a fast pass that waves through a value of a *neighbouring* type - another parametrization, a narrower class - does not count)
            MT = m.pytype()
            (kb, back) = outcome(lambda: pane.from_data(d_j, MT))
            if strict and m.kind != 'ndarray' and not (kb == 'ok' and same(back, x) is None):
                loose.append((j, d_j))
                continue
            ok_members.append((j, d_j))
        from .c05 import canon
        if not ok_members:
            # No member's fast pass recognises the typed value.  If a member nevertheless accepts x in the public sense (its own
            # serialisation of x reads back, through that member alone, as x), the union has a member to use and must use one.
            for (j, m) in enumerate(mnodes):
                if m.kind == 'ndarray':
                    continue    # array members cast whatever they are given (int64 overflow to float and back): unspecified cell
                MT = m.pytype()
                (kj, d_j) = outcome(lambda: pane.into_data(x, MT))
                if kj != 'ok':
                    continue
                (kb, back) = outcome(lambda: pane.from_data(d_j, MT))
                if kb == 'ok' and same(back, x) is None:
                    ok_members.append((j, d_j))
            if ok_members:
                ctx.label('serialise:member-by-round-trip')
        if not ok_members:
            # nothing to use: the documented fallback is serialisation by runtime type
            (kr, d_r) = outcome(lambda: pane.into_data(x))
            ctx.label('serialise:fallback-runtime-type')
            if kr == 'ok':
                ok_members.append((-1, d_r))
        if not any(canon(d_j, False) == canon(d_u, False) for (_, d_j) in ok_members):
            ctx.fail('serialise-by-accepting-member', 'union', f"{ident}; x = {short(x, 100)}; into_data(x, U) = {short(d_u, 120)} is not what any member "
                     f"accepting x writes: {[(j, short(d, 60)) for (j, d) in ok_members][:4]}")


# ---- unions that arrive through a type variable ---------------------------------------------------------------------------------
#
# G[Union[float, int]] for class G(Generic[T]) with fields of the shapes T, Optional[List[T]], Dict[str, T], Annotated[List[T], c],
# Optional[Dict[str, Union[T, str]]]: in every field the members are tried in the order *this* parametrization lists them - also when
# the class was parametrized with the opposite order first (equal types made earlier must not lend their member order).

_GF: t.Dict[str, t.Any] = {}
GF_PAIRS = [('float', 'int'), ('int', 'float'), ('Decimal', 'float'), ('float', 'Decimal')]


def gf_cases(shard: int, nshards: int) -> t.Iterator[t.Any]:
    i = 0
    for rnd in range(3):
        for pair in GF_PAIRS:
            if i % nshards == shard:
                yield [rnd, list(pair)]
            i += 1


def check_generic_fields(case: t.Any, ctx: Ctx) -> None:
    import pane
    import decimal
    import types as _types
    import pane.annotations as A
    (rnd, pair) = case
    from pane.types import ValueOrList
    if 'G' not in _GF:
        TV = t.TypeVar('TV')
        cond = A.len_range(min=0, max=9)
        _GF['G'] = _types.new_class('GenFields', (pane.PaneBase, t.Generic[TV]), {}, lambda ns: ns.update({'__annotations__': {
            'plain': TV, 'nested': t.Optional[t.List[TV]], 'mapped': t.Dict[str, TV], 'ann': t.Annotated[t.List[TV], cond],
            'mixed': t.Optional[t.Dict[str, t.Union[TV, str]]], 'vol': ValueOrList[TV]}}))
    G = _GF['G']
    types_ = {'float': float, 'int': int, 'Decimal': decimal.Decimal}
    (a, b) = (types_[pair[0]], types_[pair[1]])
    ctx.label(f"order:{pair[0]},{pair[1]}")
    ctx.nontrivial(True)
    ctx.evaluated()
    (k0, Ty) = outcome(lambda: (G[t.Union[b, a]], G[t.Union[a, b]])[1])       # type: ignore  # (the opposite order exists, from now on at the latest)
    if k0 != 'ok':
        ctx.fail('leftmost-wins', f"through-type-variable:{type(Ty).__name__}", f"GenFields[Union[{pair[0]}, {pair[1]}]] after GenFields[Union[{pair[1]}, {pair[0]}]] "
                 f"cannot be made: {type(Ty).__name__}: {str(Ty)[:200]}")
        return
    data = {'plain': 1, 'nested': [1], 'mapped': {'k': 1}, 'ann': [1], 'mixed': {'k': 1}, 'vol': [1]}
    ctx.evaluated()
    (k, r) = outcome(lambda: pane.from_data(data, Ty))
    want = a(1)
    if k != 'ok':
        ctx.fail('leftmost-wins', 'through-type-variable:refused', f"GenFields[Union[{pair[0]}, {pair[1]}]] given {data}: {type(r).__name__}: {str(r)[:200]}")
        return
    # the same with the union one level down in the argument: G[list[Union[a, b]]] after G[list[Union[b, a]]] (equal as typing sees them)
    ctx.evaluated()
    (k1, Ty2) = outcome(lambda: (G[list[t.Union[b, a]]], G[list[t.Union[a, b]]])[1])      # type: ignore
    (k2, r2) = outcome(lambda: pane.from_data({'plain': [1], 'nested': [[1]], 'mapped': {'k': [1]}, 'ann': [[1]], 'mixed': {'k': [1]}, 'vol': [[1]]}, Ty2)) if k1 == 'ok' else ('-', None)
    if k1 != 'ok' or k2 != 'ok' or any(type(z) is not type(want) for z in (r2.plain[0], r2.nested[0][0], r2.mapped['k'][0])):
        ctx.fail('leftmost-wins', 'through-type-variable:union-inside-argument', f"GenFields[list[Union[{pair[0]}, {pair[1]}]]] (GenFields[list[Union[{pair[1]}, {pair[0]}]]] exists too) "
                 f"given [1] in every field: the left-most member {pair[0]} gives {want!r}; got {k1}/{k2} {short(r2, 150)}")
        return
    got = {'plain': r.plain, 'nested': r.nested[0], 'mapped': r.mapped['k'], 'ann': r.ann[0], 'mixed': r.mixed['k'], 'vol': list(r.vol)[0]}
    wrong = {f: type(x).__name__ for (f, x) in got.items() if type(x) is not type(want)}
    if wrong:
        ctx.fail('leftmost-wins', 'through-type-variable', f"GenFields[Union[{pair[0]}, {pair[1]}]] (GenFields[Union[{pair[1]}, {pair[0]}]] exists too) given 1 in every field: "
                 f"the left-most member {pair[0]} gives {want!r}, but fields {wrong} hold the other member's value")


def suites(tier: str) -> t.List[Suite]:
    big = tier == 'thorough'
    return [Suite('unions', check, strategy=cases, examples=10000 if big else 800, budget_s=480 if big else 40, render=render),
            Suite('generic-fields', check_generic_fields, cases=gf_cases, exhaustive=True, budget_s=30, render=lambda c: {'round': c[0], 'member order': c[1]})]
