"""
C03  Fast path and diagnostic path always agree.

Model-free oracle on the documented extension interface: for
conv = make_converter(T), ``try_convert(v)`` raises ParseInterrupt iff
``collect_errors(v)`` is not None; ``convert(v)`` never raises the
"bug of the Converter implementation" RuntimeError.  Applied to the root
converter and to every sub-converter on its own sub-value (so an inner
disagreement masked by a union member is still seen).
"""

from __future__ import annotations

import collections
import typing as t

from ..core import Suite, Ctx, triage_exception
from .. import tg, gen
from ..codec import short
from ..oracles import blame, outcome

ID = 'C03'
RULE = ("Hypothesis: the shared conversion generator (full type grammar incl. conditions with raising predicates, tagged unions in three "
        "layouts, dataclasses with validating __post_init__, ValueOrList, numpy arrays; values built from the type then mutated). "
        "For the root converter and every (sub-type, sub-value) pair reached by walking the value: try_convert raises ParseInterrupt "
        "iff collect_errors returns a node. Non-trivial = the value is rejected below the root, or accepted through a "
        "union/conditional/dataclass/tagged converter; distinct by (type spec, value).")
ASSUMPTIONS = [
    "an exception other than ParseInterrupt from the fast pass is C04's subject and is only counted here; a diagnostic pass that raises instead of returning a tree/None is a disagreement",
    "user-written Converter subclasses are outside the property (their two passes are the user's)",
]

CONVERTERS: t.Counter[str] = collections.Counter()


def worker_extra() -> t.Dict[str, t.Any]:
    return {'converter_classes': dict(CONVERTERS)}


def merge_extra(extras: t.List[t.Dict[str, t.Any]]) -> t.Dict[str, t.Any]:
    tot: t.Counter[str] = collections.Counter()
    for e in extras:
        tot.update(e.get('converter_classes', {}))
    return {'converter_classes_exercised': dict(tot.most_common())}


def two_pass(nd: tg.Node, v: t.Any) -> t.Tuple[t.Optional[str], str, str]:
    """-> (disagreement description or None, fast outcome, diagnostic outcome)"""
    from pane.convert import make_converter
    from pane.errors import ParseInterrupt, ErrorNode
    conv = make_converter(nd.pytype())
    CONVERTERS[type(conv).__name__] += 1
    try:
        conv.try_convert(v)
        fast = 'ok'
    except ParseInterrupt:
        fast = 'interrupt'
    except RecursionError:
        raise
    except Exception as e:
        fast = f'exc:{type(e).__name__}'
    try:
        node_ = conv.collect_errors(v)
        diag = 'none' if node_ is None else ('tree' if isinstance(node_, ErrorNode) else f'bad-node:{type(node_).__name__}')
    except RecursionError:
        raise
    except Exception as e:
        diag = f'exc:{type(e).__name__}'
    msg = None
    if fast == 'ok' and diag == 'tree':
        msg = f"try_convert accepts but collect_errors returns an error tree"
    elif fast == 'interrupt' and diag == 'none':
        msg = f"try_convert raises ParseInterrupt but collect_errors returns None"
    elif fast in ('ok', 'interrupt') and diag.startswith('exc'):
        msg = f"try_convert {'accepts' if fast == 'ok' else 'raises ParseInterrupt'} but collect_errors raises {diag[4:]} instead of returning {'None' if fast == 'ok' else 'an error tree'}"
    elif diag.startswith('bad-node'):
        msg = f"collect_errors returned a non-ErrorNode ({diag})"
    if msg is not None:
        msg = f"{type(conv).__name__} for {nd.render()[:300]} on {short(v, 200)}: {msg}"
    return msg, fast, diag


def check(case: t.Any, ctx: Ctx) -> None:
    from pane.convert import make_converter
    (spec, v, how) = case[:3]
    nd = tg.node(spec)
    conv = make_converter(nd.pytype())
    (msg, fast, diag) = two_pass(nd, v)
    ctx.label(f"{fast.split(':')[0]}/{diag.split(':')[0]}:{how}", f"root:{nd.kind.split(':')[0]}")
    shaped = (tg.is_seq(v) or tg.is_map(v)) and len(v) > 0
    ctx.nontrivial((fast == 'interrupt' and shaped) or (fast == 'ok' and nd.kind in ('union', 'annotated', 'dataclass', 'tagged', 'ValueOrList')))
    if fast.startswith('exc'):
        ctx.exclude(f"fast pass raised another exception (C04's subject): fast={fast} diag={diag}")

    def failing(n: tg.Node, x: t.Any) -> bool:
        return two_pass(n, x)[0] is not None

    # every sub-converter on its own sub-value
    seen = 0
    stack: t.List[t.Tuple[tg.Node, t.Any, int]] = [(nd, v, 0)]
    while stack and seen < 200:
        (n, x, d) = stack.pop()
        seen += 1
        ctx.evaluated()
        if n is nd:
            m = msg
        else:
            m = two_pass(n, x)[0]
        if m is not None:
            where = blame(n, x, failing)
            ctx.fail('two-pass-agree', where.kind, m)
            break
        if d < 8:
            try:
                for (c, y) in n.subpairs(x):
                    stack.append((c, y, d + 1))
            except Exception:
                pass

    # the RuntimeError the statement names
    try:
        conv.convert(v)
    except RuntimeError as e:
        if 'bug of the' in str(e):
            ctx.fail('no-runtimeerror', nd.kind, f"convert({short(v, 200)}) for {nd.render()[:300]} raised {e}")
    except RecursionError:
        raise
    except Exception:
        pass


def atheris_cases(shard: int, nshards: int) -> t.Iterator[t.Any]:
    yield ['atheris-campaign', shard]


def check_atheris(case: t.Any, ctx: Ctx) -> None:
    """One coverage-guided campaign (pv/fuzz.py) per worker; its collected failures are reported with their own replayable cases."""
    import json
    import os
    import subprocess
    import sys
    import tempfile
    from .. import codec
    from ..core import ROOT
    shard = case[1]
    out = tempfile.mktemp(prefix=f'pv-fuzz-{ID}-{shard}-', suffix='.jsonl', dir='/tmp')
    seed = int(os.environ.get('VERIF_SEED', '1') or 1) * 100 + shard + 1
    r = subprocess.run([sys.executable, '-m', 'pv.fuzz', ID, '--out', out, '--runs', '400000', '--seed', str(seed), '--budget', str(ATHERIS_BUDGET)],
                       cwd=ROOT, env=dict(os.environ), capture_output=True, text=True, timeout=ATHERIS_BUDGET + 120)
    stats: t.Dict[str, t.Any] = {}
    try:
        for line in open(out, encoding='utf-8'):
            rec = json.loads(line)
            if 'stats' in rec:
                stats = rec['stats']
            else:
                (oracle, _, klass) = rec['key'].partition('/')
                ctx.fail(oracle, klass, rec['detail'] + '  [found by the atheris campaign]', case=codec.dec(rec['case']), suite='twopass')
    except FileNotFoundError:
        pass
    finally:
        import shutil
        shutil.rmtree(out + '.corpus', ignore_errors=True)
        if os.path.exists(out):
            os.remove(out)
    if stats.get('error') or not stats:
        ctx.label('atheris:unavailable')
        ctx.exclude(f"atheris campaign did not run: {stats.get('error') or r.stderr[-200:]}")
        return
    ctx.label('atheris:campaign')
    ctx.evaluated(int(stats.get('valid_cases', 0)))
    ctx.nontrivial(stats.get('nontrivial', 0) > 0)


ATHERIS_BUDGET = 240.0


def _condition_cases() -> t.Any:
    from .c13 import cases as cond_cases
    return cond_cases().map(lambda c: [c[0], c[1], 'condition'])


# ---- the documented extension points: a union with a constructor, a default factory of the user's -------------------------------
#
# UnionConverter(types, constructor=f) is how ValueOrList is built and how a `_converter` hook builds "one of these, then wrap": f may
# refuse a member's result, and the next member is then tried *with the same input*.  A field's default_factory is user code that may
# raise, like __post_init__.  In both places the fast pass and the diagnostic pass answer alike, and only ConvertError leaves convert().

_EXT: t.Dict[str, t.Any] = {}


def ext_cases(shard: int, nshards: int) -> t.Iterator[t.Any]:
    i = 0
    for kind in ('union-constructor', 'raising-default-factory', 'sized-sequence-type', 'validating-sequence-type', 'temporal-subclass-objects'):
        for vi in range(6):
            for where in ('bare', 'List', 'Optional'):
                if i % nshards == shard:
                    yield [kind, vi, where]
                i += 1


def check_extension(case: t.Any, ctx: Ctx) -> None:
    import pane
    import datetime as D
    from pane.converters import UnionConverter
    from pane.convert import make_converter
    from pane.errors import ParseInterrupt
    (kind, vi, where) = case
    if kind not in _EXT:
        if kind == 'union-constructor':
            class Deadline:
                """A date of this century, or free text: read by a union whose constructor refuses old dates."""
                def __init__(self, v: t.Any) -> None:
                    self.v = v

                def __eq__(self, other: t.Any) -> bool:
                    return type(other) is Deadline and self.v == other.v

                def __repr__(self) -> str:
                    return f"Deadline({self.v!r})"

                @classmethod
                def _converter(cls, *args: t.Any, handlers: t.Any = None) -> t.Any:
                    def build(val: t.Any, i: int) -> t.Any:
                        if i == 0 and val.year < 2000:
                            raise ValueError('too old for a date: keep it as text')
                        return cls(val)
                    return UnionConverter((D.date, str), constructor=build, **({'handlers': handlers} if handlers is not None else {}))
            _EXT[kind] = Deadline
        elif kind == 'temporal-subclass-objects':
            # date / time objects of a subclass (what YAML loaders and date libraries hand out), to each of the three targets
            Stamp = type('Stamp', (D.datetime,), {})
            Day = type('Day', (D.date,), {})
            Clock = type('Clock', (D.time,), {})
            _EXT[kind] = [(Stamp(2024, 1, 2, 3, 4, 5), D.datetime), (Stamp(2024, 1, 2, 3, 4, 5), D.date), (Stamp(2024, 1, 2, 3, 4, 5), D.time),
                          (Day(2024, 1, 2), D.date), (Day(2024, 1, 2), D.datetime), (Clock(3, 4, 5), D.time)]
        elif kind == 'sized-sequence-type':
            class Vec3(tuple):  # type: ignore[type-arg]
                """A sequence type of the user's whose constructor wants something with a length: the one-shot iterator the
                converter hands it has none, so it refuses everything; and both passes say so."""
                def __new__(cls, items: t.Any = ()) -> t.Any:
                    if len(items) != 3:
                        raise ValueError('three components')
                    return super().__new__(cls, items)
            _EXT[kind] = Vec3
        elif kind == 'validating-sequence-type':
            class Ascending(list):  # type: ignore[type-arg]
                """A list type of the user's which refuses contents out of order."""
                def __init__(self, items: t.Any = ()) -> None:
                    super().__init__(items)
                    if any(a > b for (a, b) in zip(self, self[1:])):
                        raise ValueError('not ascending')
            _EXT[kind] = Ascending
        else:
            def factory() -> t.Any:
                if _EXT.get('factory-fails'):
                    raise LookupError('no default available today')
                return 'main'
            _EXT['factory-fails'] = False
            _EXT[kind] = type('Job', (pane.PaneBase,), {'__annotations__': {'name': str, 'queue': str}, 'queue': pane.field(default_factory=factory)},
                              in_format=('struct', 'tuple'))
    X = _EXT[kind]
    if kind == 'temporal-subclass-objects':
        (tv, X) = X[vi]
    _EXT['factory-fails'] = True        # (the class is defined by now: pane evaluates the factory once for the signature)
    v = {'union-constructor': ['2024-05-06', '1999-12-31', 'whenever', 5, None, ''],
         'raising-default-factory': [{'name': 'b'}, {'name': 'b', 'queue': 'q'}, ['b'], ['b', 'q'], {'name': 5}, {}],
         'sized-sequence-type': [[1.0, 2.0, 3.0], [1, 2], [], 'abc', (1, 2, 3), [1, 2, 3, 4]],
         'validating-sequence-type': [[1, 2, 3], [3, 1], [], [2, 2], 5, (9, 1, 1)],
         'temporal-subclass-objects': [tv if kind == 'temporal-subclass-objects' else None] * 6}[kind][vi]
    (T, data) = {'bare': (X, v), 'List': (t.List[X], [v]), 'Optional': (t.Optional[X], v)}[where]
    ctx.label(kind, where)
    ctx.nontrivial(True)
    conv = make_converter(T)
    ctx.evaluated(3)
    fast = outcome(lambda: conv.try_convert(data))
    diag = outcome(lambda: conv.collect_errors(data))
    # (from_data first asks whether the root is interchange data at all, and a date object of a subclass is not: the converter's own
    # convert() is the entry point there)
    full = outcome(lambda: conv.convert(data)) if kind == 'temporal-subclass-objects' else outcome(lambda: pane.from_data(data, T))
    fast_ok = fast[0] == 'ok'
    fast_refused = fast[0] != 'ok' and isinstance(fast[1], ParseInterrupt)
    ident = f"{kind} ({where}) given {short(data, 60)}"
    if not (fast_ok or fast_refused):
        ctx.fail('two-pass-agree', f"{kind}:fast-pass-raises:{type(fast[1]).__name__}", f"{ident}: try_convert raised {type(fast[1]).__name__}: {str(fast[1])[:150]} (neither a value nor ParseInterrupt)")
    elif diag[0] != 'ok' or (diag[1] is None) != fast_ok:
        ctx.fail('two-pass-agree', f"{kind}:passes-disagree", f"{ident}: try_convert {'accepts' if fast_ok else 'refuses'}, collect_errors gives {short(diag[1], 100)}")
    elif full[0] not in ('ok', 'ce') or (full[0] == 'ok') != fast_ok:
        ctx.fail('no-runtimeerror', f"{kind}:{type(full[1]).__name__}", f"{ident}: from_data gives {full[0]} {short(full[1], 120)} although try_convert {'accepts' if fast_ok else 'refuses'}")


def check_equal_kinds(case: t.Any, ctx: Ctx) -> None:
    """The lists of C02's `equal-across-kinds` suite (1 next to 1.0, True next to 1): whatever the verdict, both passes give it."""
    import pane
    from pane.convert import make_converter
    from pane.errors import ParseInterrupt
    from .c02 import SETDUP_TARGETS, SETDUP_VALUES
    (tn, vi) = case
    (T, v) = (SETDUP_TARGETS[tn], SETDUP_VALUES[vi])
    data = {'k': v} if tn.startswith('Dict') else v
    conv = make_converter(T)
    ctx.label(f"target:{tn}")
    ctx.nontrivial(True)
    ctx.evaluated(3)
    fast = outcome(lambda: conv.try_convert(data))
    diag = outcome(lambda: conv.collect_errors(data))
    full = outcome(lambda: pane.from_data(data, T))
    fast_ok = fast[0] == 'ok'
    if not fast_ok and not isinstance(fast[1], ParseInterrupt):
        ctx.fail('two-pass-agree', f"equal-across-kinds:fast-pass-raises:{type(fast[1]).__name__}", f"{tn} given {data!r}: try_convert raised {type(fast[1]).__name__}")
    elif diag[0] != 'ok' or (diag[1] is None) != fast_ok:
        ctx.fail('two-pass-agree', 'equal-across-kinds', f"{tn} given {data!r}: try_convert {'accepts' if fast_ok else 'refuses'}, collect_errors gives {short(diag[1], 100)}")
    elif full[0] not in ('ok', 'ce'):
        ctx.fail('no-runtimeerror', f"equal-across-kinds:{type(full[1]).__name__}", f"{tn} given {data!r}: from_data raised {type(full[1]).__name__}: {str(full[1])[:150]}")


def suites(tier: str) -> t.List[Suite]:
    big = tier == 'thorough'
    leaves = 8 if big else 4
    return [
        Suite('hash-hostile', check, strategy=lambda: gen.conv_cases(gen.hash_hostile_specs()), examples=2000 if big else 150, budget_s=120 if big else 20, render=gen.render_case),
        Suite('twopass', check, strategy=lambda: gen.conv_cases(gen.all_type_specs(leaves)), examples=8000 if big else 600,
              budget_s=480 if big else 40, render=gen.render_case),
        # conditions see the *converted* value in both passes: the condition grammar of C13 (thresholds, duplicates collapsing in sets, ...)
        Suite('equal-across-kinds', check_equal_kinds, cases=lambda sh, n: __import__('pv.props.c02', fromlist=['x']).setdup_cases(sh, n), exhaustive=True, budget_s=30,
              render=lambda c: {'target': c[0], 'value index': c[1]}),
        Suite('extension-points', check_extension, cases=ext_cases, exhaustive=True, budget_s=30, render=lambda c: {'kind': c[0], 'value': c[1], 'where': c[2]}),
        Suite('conditions', check, strategy=_condition_cases, examples=3000 if big else 300, budget_s=120 if big else 20, render=gen.render_case),
        *([Suite('atheris', check_atheris, cases=atheris_cases, budget_s=ATHERIS_BUDGET + 200)] if big else []),
    ]
