"""
C20  Field renaming yields canonical, reversible names.

Oracle: an independent canonical renderer per style (three lines each, below),
and the algebraic identities the statement lists.  The finite sub-domain
(1-3 words of 2-3 letters over a 3-letter alphabet, 47 988 names) is swept
exhaustively, which is also where injectivity is decided with a dict; a
Hypothesis search covers longer words / more words / the refusal cases / the
same identities observed through a dataclass.
"""

from __future__ import annotations

import itertools
import keyword
import typing as t

from hypothesis import strategies as st

from ..core import Suite, Ctx

ID = 'C20'
RULE = ("exhaustive: every snake_case name of 1-3 words, each word 2-3 letters over the alphabet 'aiz' "
        "(47 988 names) x 5 styles x 5 styles; random: 1-5 words of 2-8 ASCII lowercase letters; 1-4 words of Latin-1 / Cyrillic / Greek lowercase letters; "
        "ill-formed names with leading/trailing/doubled separators, and classes with rename=style. "
        "Non-trivial = a name of at least two words (word splitting actually matters); distinct by name.")
ASSUMPTIONS = [
    "alphabets: ASCII (exhaustive sweep and random), and Latin-1 / Cyrillic / Greek lowercase letters whose case mapping is one-to-one and context-free (random); letters such as \u00df, dotless i, long s, ligatures and Greek sigma cannot be reversible under Python's str.upper / lower and are outside the domain",
    "canonical forms are the ones the statement spells out: a_b, A_B, a-b, aB, AB with capitalised words",
]

STYLES = ('snake', 'scream', 'kebab', 'camel', 'pascal')


def canon(words: t.Sequence[str], style: str) -> str:
    """Independent reference renderer (does not use str.title / pane code)."""
    cap = [w[0].upper() + w[1:] for w in words]
    if style == 'snake':
        return '_'.join(words)
    if style == 'scream':
        return '_'.join(w.upper() for w in words)
    if style == 'kebab':
        return '-'.join(words)
    if style == 'camel':
        return words[0] + ''.join(cap[1:])
    if style == 'pascal':
        return ''.join(cap)
    raise ValueError(style)


def _rename():
    from pane.field import rename_field
    return rename_field


def check_name(words: t.Sequence[str], ctx: Ctx) -> None:
    rename_field = _rename()
    name = '_'.join(words)
    ctx.label(f"words={len(words)}")
    ctx.nontrivial(len(words) >= 2)
    forms = {}
    for s in STYLES:
        want = canon(words, s)
        got = rename_field(name, s)  # type: ignore
        ctx.evaluated()
        forms[s] = got
        if got != want:
            ctx.fail('canonical', s, f"rename_field({name!r}, {s!r}) = {got!r}, canonical form is {want!r}")
            continue
        again = rename_field(got, s)  # type: ignore
        if again != got:
            ctx.fail('idempotent', s, f"rename_field({got!r}, {s!r}) = {again!r} (style re-applied to its own output)")
        back = rename_field(got, 'snake')
        if back != name:
            ctx.fail('reversible', s, f"rename_field({got!r}, 'snake') = {back!r}, original was {name!r}")
    # pairs of styles: from any styled form to any style gives that style's canonical form
    for (s1, f1) in forms.items():
        for s2 in STYLES:
            want = canon(words, s2)
            got = rename_field(f1, s2)  # type: ignore
            ctx.evaluated()
            if got != want:
                ctx.fail('pairs', f"{s1}->{s2}", f"rename_field({f1!r}, {s2!r}) = {got!r}, want {want!r} (name {name!r})")
    if rename_field(name, None) != name:
        ctx.fail('canonical', 'none', f"rename_field({name!r}, None) changed the name")


# ---- exhaustive sweep -----------------------------------------------------

ALPHA = 'aiz'


def _words() -> t.List[str]:
    return [''.join(p) for n in (2, 3) for p in itertools.product(ALPHA, repeat=n)]


def sweep_cases(shard: int, nshards: int) -> t.Iterator[t.Any]:
    ws = _words()
    i = 0
    for n in (1, 2, 3):
        for combo in itertools.product(ws, repeat=n):
            if i % nshards == shard:
                yield list(combo)
            i += 1


def check_sweep(case: t.Any, ctx: Ctx) -> None:
    check_name(case, ctx)


def injectivity_cases(shard: int, nshards: int) -> t.Iterator[t.Any]:
    # one case per style, each sweeping the full name set with a dict
    for (i, s) in enumerate(STYLES):
        if i % nshards == shard:
            yield s


def check_injective(style: str, ctx: Ctx) -> None:
    rename_field = _rename()
    seen: t.Dict[str, str] = {}
    n = 0
    for words in sweep_cases(0, 1):
        name = '_'.join(words)
        out = rename_field(name, style)  # type: ignore
        n += 1
        prev = seen.get(out)
        if prev is not None and prev != name:
            ctx.fail('injective', style, f"names {prev!r} and {name!r} both become {out!r} in style {style!r}")
            break
        seen[out] = name
    ctx.evaluated(n)
    ctx.label(f"injective:{style}")
    ctx.nontrivial(True)


# ---- random search ----------------------------------------------------------

word = st.text(alphabet='abcdefghijklmnopqrstuvwxyz', min_size=2, max_size=8)


def _simple_case(ch: str) -> bool:
    """Lowercase letters whose case mapping is one-to-one and context-free (so ß, ı, ſ, ligatures, Greek sigma are out)."""
    u = ch.upper()
    return (ch.isalpha() and ch.islower() and len(u) == 1 and u.isupper() and u.lower() == ch and ch.title() == u
            and (ch + ch).upper().lower() == ch + ch and ('a' + ch).title() == 'A' + ch)


ALPHABETS = {
    'latin1': ''.join(c for c in map(chr, range(0xC0, 0x100)) if _simple_case(c)),
    'cyrillic': ''.join(c for c in map(chr, range(0x430, 0x460)) if _simple_case(c)),
    'greek': ''.join(c for c in map(chr, range(0x3B1, 0x3CA)) if _simple_case(c) and c not in 'σς'),
}
# words of one alphabet (or ASCII) each; a name may mix alphabets between words
uword = st.sampled_from(sorted(ALPHABETS)).flatmap(lambda a: st.text(alphabet=ALPHABETS[a], min_size=2, max_size=6))
names = st.lists(word, min_size=1, max_size=5)
unames = st.lists(st.one_of(uword, uword, word), min_size=1, max_size=4)


def check_random(case: t.Any, ctx: Ctx) -> None:
    check_name(case, ctx)


@st.composite
def bad_names(draw) -> t.Any:
    ws = draw(st.lists(word, min_size=1, max_size=4))
    seps = [draw(st.sampled_from(['_', '-'])) for _ in range(len(ws) - 1)]
    kind = draw(st.sampled_from(['lead', 'trail', 'double', 'only'] if len(ws) > 1 else ['lead', 'trail', 'only']))
    sep = draw(st.sampled_from(['_', '-']))
    if kind == 'only':
        return [kind, sep * draw(st.integers(1, 3))]
    parts = []
    for (i, w) in enumerate(ws):
        parts.append(w)
        if i < len(seps):
            parts.append(seps[i])
    s = ''.join(parts)
    if kind == 'lead':
        return [kind, sep + s]
    if kind == 'trail':
        return [kind, s + sep]
    j = draw(st.integers(0, len(seps) - 1))
    parts[2 * j + 1] = parts[2 * j + 1] + sep
    return [kind, ''.join(parts)]


def check_bad(case: t.Any, ctx: Ctx) -> None:
    rename_field = _rename()
    (kind, name) = case
    ctx.label(f"bad:{kind}")
    ctx.nontrivial(True)
    for s in STYLES:
        ctx.evaluated()
        try:
            got = rename_field(name, s)  # type: ignore
        except ValueError:
            continue
        ctx.fail('refuse', kind, f"rename_field({name!r}, {s!r}) returned {got!r} instead of raising ValueError")


# (a field named like a method of the base class - dict, copy, from_data - hides that method on the instance: not a name the check can use)
_METHOD_NAMES = frozenset(n for n in ('dict', 'copy', 'from_data', 'into_data', 'from_json', 'from_yaml', 'from_yaml_all', 'from_yamls', 'from_jsons',
                                      'write_json', 'write_yaml', 'make_unchecked', 'from_dict_unchecked', 'from_obj'))


@st.composite
def class_cases(draw) -> t.Any:
    fields = draw(st.lists(names.filter(lambda ws: not keyword.iskeyword('_'.join(ws)) and '_'.join(ws) not in ('cls', 'self') and '_'.join(ws) not in _METHOD_NAMES), min_size=1, max_size=4,
                          unique_by=lambda ws: '_'.join(ws)))
    style = draw(st.sampled_from(STYLES))
    mode = draw(st.sampled_from(['rename', 'in_out', 'dict', 'in_many']))
    if mode == 'in_many':
        # several input styles at once: every field is reachable under its canonical name in each of them
        return [fields, draw(st.lists(st.sampled_from(STYLES), min_size=2, max_size=4, unique=True)), mode]
    # other input names given for a field (aliases= keeps the styled name and adds some, in_names= replaces them) leave the name it is
    # *written* under alone: that stays the canonical spelling of the class's style
    naming = [draw(st.sampled_from(['plain', 'plain', 'aliases', 'in_names'])) for _ in fields]
    return [fields, style, mode, naming]


_KEEP: t.List[t.Any] = []


def check_class(case: t.Any, ctx: Ctx) -> None:
    import pane
    (fields, style, mode) = case[:3]
    naming = case[3] if len(case) > 3 else ['plain'] * len(fields)
    fnames = ['_'.join(ws) for ws in fields]
    if any(n in _METHOD_NAMES for n in fnames):
        ctx.exclude('a field named like a method of the base class')
        return
    ctx.label(f"class:{mode}:{style if isinstance(style, str) else 'several'}")
    ctx.nontrivial(any(len(ws) >= 2 for ws in fields))
    if mode == 'in_many':
        styles = list(style)
        cls = type('RenMany', (pane.PaneBase,), {'__annotations__': {n: int for n in fnames}}, in_rename=tuple(styles))
        _KEEP.append(cls)
        inst = cls(**{n: i for (i, n) in enumerate(fnames)})
        for st_ in styles:
            ctx.evaluated()
            data = {canon(ws, st_): i for (i, ws) in enumerate(fields)}
            if len(data) != len(fields):
                continue
            try:
                back = cls.from_data(data)
            except pane.ConvertError as e:
                ctx.fail('observed', 'in_rename-several', f"class with in_rename={styles} and fields {fnames}: the {st_} names {data!r} are refused: {str(e)[:200]}")
                return
            if back != inst:
                ctx.fail('observed', 'in_rename-several', f"class with in_rename={styles} and fields {fnames}: {data!r} read as {back!r}")
                return
        return
    opts: t.Dict[str, t.Any] = {}
    if mode == 'rename':
        opts = {'rename': style}
    elif mode == 'in_out':
        opts = {'in_rename': (style,), 'out_rename': style}
    ns: t.Dict[str, t.Any] = {'__annotations__': {n: int for n in fnames}}
    for (n, how) in zip(fnames, naming):
        if how == 'aliases':
            ns[n] = pane.field(aliases=[f"alt-{n}"])
        elif how == 'in_names':
            ns[n] = pane.field(in_names=[f"alt-{n}", f"other-{n}"])
    if any(how != 'plain' for how in naming):
        ctx.label('class:with-field-input-names')
    cls = type('RenCls', (pane.PaneBase,), ns, **opts)
    _KEEP.append(cls)
    inst = cls(**{n: i for (i, n) in enumerate(fnames)})
    want = {canon(ws, style): i for (i, ws) in enumerate(fields)}
    ctx.evaluated()
    if mode == 'dict':
        got = inst.dict(rename=style)
        if got != want or list(got) != list(want):
            ctx.fail('observed', 'dict', f"dict(rename={style!r}) of fields {fnames} = {got!r}, want {want!r}")
            return
        # the fields explicitly set only (here: all of them): the same names, whatever order the record is kept in
        ctx.evaluated()
        got = inst.dict(set_only=True, rename=style)
        if got != want:
            ctx.fail('observed', 'dict-set-only', f"dict(set_only=True, rename={style!r}) of fields {fnames} = {got!r}, want {want!r}")
        return
    got = inst.into_data()
    if got != want or list(got) != list(want):
        ctx.fail('observed', 'into_data', f"into_data() of class {opts} fields {fnames} (input names: {naming}) = {got!r}, want {want!r}")
        return
    if 'in_names' in naming:
        return      # (a field read under other names only does not read its own output name: not this property's subject)
    try:
        back = cls.from_data(want)
    except pane.ConvertError as e:
        ctx.fail('observed', 'from_data', f"class {opts} fields {fnames}: own output {want!r} refused: {e}")
        return
    if back != inst:
        ctx.fail('observed', 'from_data', f"class {opts} fields {fnames}: {want!r} read back as {back!r}")


def suites(tier: str) -> t.List[Suite]:
    big = tier == 'thorough'
    return [
        Suite('sweep', check_sweep, cases=sweep_cases, exhaustive=True, budget_s=600),
        Suite('injective', check_injective, cases=injectivity_cases, exhaustive=True, budget_s=600),
        Suite('random', check_random, strategy=lambda: names, examples=20000 if big else 1500, budget_s=300 if big else 30),
        Suite('non-ascii', check_random, strategy=lambda: unames, examples=10000 if big else 800, budget_s=200 if big else 20),
        Suite('bad', check_bad, strategy=bad_names, examples=5000 if big else 500, budget_s=120 if big else 20),
        Suite('class', check_class, strategy=class_cases, examples=3000 if big else 200, budget_s=300 if big else 30),
    ]
