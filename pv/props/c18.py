"""
C18  Custom converter precedence and reach.

For a marker type M (a fresh plain class per case) every subset of the sources
  F  the field's own converter            C  handlers passed to the call (callable / sequence / mapping form)
  O  the containing class's own custom=   I  custom= inherited from its base class
  E  custom= of the enclosing dataclass   P  M's own _converter protocol      G  a registered global handler
is installed, each converting to a value that names its source; M is placed in
a field directly, inside List / Dict / Optional / Tuple, in a nested dataclass
and in a subclass; both directions.  Oracle: the documented order, coded as a list.
"""

from __future__ import annotations

import typing as t

from hypothesis import strategies as st

from ..core import Suite, Ctx
from ..codec import short
from ..oracles import outcome

ID = 'C18'
RULE = ("Hypothesis: subset of the seven sources x call-level form (callable, sequence with declining handlers first, mapping) x position of M "
        "(direct field, List, Dict value, Optional, Tuple slot, outer-class field, top-level List, inside a third-party generic container served by a registered handler) x direction (from_data, into_data, construction of the containing class). "
        "Observed: the label of the source that produced the value. Non-trivial = at least two sources present and M below the root; distinct by case.")
ASSUMPTIONS = [
    "one process-wide dispatcher is registered with register_converter_handler at import and consults a per-case table; the converter cache is emptied at the start of every case, so that the table of an earlier case is not history (C10's subject)",
    "a field converter applies to the field as a whole, so F is only installed when M is the field's type",
]

ORDER = ['F', 'C', 'O', 'I', 'E', 'P', 'G']
GLOBAL_TABLE: t.Dict[type, t.Any] = {}
_REGISTERED = [False]
_KEEP: t.List[t.Any] = []


class Labeled:
    def __init__(self, source: str, val: t.Any):
        self.source, self.val = source, val

    def __repr__(self) -> str:
        return f"Labeled({self.source!r}, {self.val!r})"

    def __eq__(self, other: t.Any) -> bool:
        return isinstance(other, Labeled) and (self.source, self.val) == (other.source, other.val)

    __hash__ = None  # type: ignore


STRICT = [False]


def _label_conv(source: str) -> t.Any:
    from pane.converters import Converter
    from pane.errors import ParseInterrupt, WrongTypeError
    strict = STRICT[0]

    class LabelConv(Converter[t.Any]):
        def expected(self, plural: bool = False) -> str:
            return f"marker via {source}"

        def try_convert(self, val: t.Any) -> t.Any:
            # (strict: written like the example of docs/using/advanced.md - only the data form is read, a typed value is not data)
            if strict and not isinstance(val, (int, list, dict)):
                raise ParseInterrupt()
            return Labeled(source, val)

        def collect_errors(self, val: t.Any) -> t.Any:
            if strict and not isinstance(val, (int, list, dict)):
                return WrongTypeError(self.expected(), val)
            return None

        def into_data(self, val: t.Any) -> t.Any:
            return f"{source}-out"
    return LabelConv()


_BT = t.TypeVar('_BT')


class Bag(t.Generic[_BT]):
    """A third-party generic container pane knows nothing about: served by a *registered* handler, which (as the documentation of
    handlers asks) builds its element converter with the handlers it was given, so that handlers of the call reach the elements."""

    def __init__(self, items: t.Iterable[t.Any]):
        self.items = list(items)

    def __repr__(self) -> str:
        return f"Bag({self.items!r})"


def _bag_conv(elem: t.Any) -> t.Any:
    from pane.converters import Converter
    from pane.errors import ParseInterrupt, WrongTypeError, ProductErrorNode

    class BagConv(Converter[t.Any]):
        def expected(self, plural: bool = False) -> str:
            return f"bag of {elem.expected(True)}"

        def try_convert(self, val: t.Any) -> t.Any:
            if not isinstance(val, (list, tuple)):
                raise ParseInterrupt()
            return Bag(elem.try_convert(x) for x in val)

        def collect_errors(self, val: t.Any) -> t.Any:
            if not isinstance(val, (list, tuple)):
                return WrongTypeError(self.expected(), val)
            bad = {i: e for (i, e) in ((i, elem.collect_errors(x)) for (i, x) in enumerate(val)) if e is not None}
            return ProductErrorNode(self.expected(), bad, val) if bad else None

        def into_data(self, val: t.Any) -> t.Any:
            return [elem.into_data(x) for x in val.items]
    return BagConv()


def _forget_converters() -> None:
    """The dispatcher's table changes from case to case, which pane (reasonably) treats as history: converters made for builtin
    types under an earlier table are memoised.  Precedence is what is checked here, history is C10's: start every case from an
    empty converter cache."""
    from pane.convert import make_converter
    for attr in ('cache', '_keepalive'):
        d = getattr(make_converter, attr, None)
        if isinstance(d, dict):
            d.clear()


def _ensure_global() -> None:
    _forget_converters()
    if _REGISTERED[0]:
        return
    from pane.convert import register_converter_handler, make_converter

    def pv_global_dispatch(ty: t.Any, args: t.Any, *, handlers: t.Any) -> t.Any:
        if ty is Bag and len(args) == 1:
            return _bag_conv(make_converter(args[0], handlers))
        conv = GLOBAL_TABLE.get(ty)
        return conv if conv is not None and len(args) == 0 else NotImplemented
    register_converter_handler(pv_global_dispatch)
    _REGISTERED[0] = True


POSITIONS = ['direct', 'List', 'Dict', 'Optional', 'Tuple', 'outer-field', 'top-List', 'Bag', 'Dict-of-Bag']
# untyped positions: nothing is converted on input, but on output a marker value found there is serialised by its runtime type, with the handlers in effect
ANY_POSITIONS = ['List[Any]', 'Any', 'Tuple[Any, int]', 'Dict[str, Any]']
FORMS = ['callable', 'sequence', 'sequence-declining', 'mapping']


@st.composite
def cases(draw) -> t.Any:
    srcs = [s for s in ORDER if draw(st.booleans())]
    pos = draw(st.sampled_from(POSITIONS))
    form = draw(st.sampled_from(FORMS))
    direction = draw(st.sampled_from(['from', 'into', 'from', 'into', 'ctor', 'ctor-outer', 'replace-outer']))
    if direction == 'into' and draw(st.integers(0, 3)) == 3:
        pos = draw(st.sampled_from(ANY_POSITIONS))
    if direction == 'ctor':
        # the constructor of the containing class "performs conversion" of its arguments: with the field's own converter, else the
        # class's handlers (own or inherited), else the type's protocol / built-ins / registered handlers; no call, no enclosing class
        pos = draw(st.sampled_from(['direct', 'List', 'Dict', 'Optional', 'Tuple', 'Bag']))
    if direction in ('ctor-outer', 'replace-outer'):
        # (replace-outer: the same through __replace__ on an existing instance, which converts its changes as the constructor would)
        # the enclosing class is constructed from the same data from_data would be given: the nested class's own handlers still
        # come before those of the class around it (no call-level handlers exist on this path)
        pos = draw(st.sampled_from(['direct', 'List', 'Dict', 'Optional', 'Tuple']))
    sub = draw(st.integers(0, 3)) == 3          # instantiate a subclass of the containing class
    # handlers on the containing class / its base that do NOT provide a converter for M (another type, or declining):
    # they must not stop the search from going on to the enclosing class
    other = draw(st.sampled_from(['none', 'none', 'mapping-other-type', 'declining-callable', 'base-other-type']))
    inner_wrap = draw(st.sampled_from(['plain', 'plain', 'Optional', 'List', 'Union']))   # how Outer holds Inner
    strict = direction == 'into' and draw(st.booleans())     # converters that read the data form only; the typed values are instances of M
    return [srcs, pos, form, direction, sub, other, inner_wrap, strict]


def render(case: t.Any) -> t.Any:
    (srcs, pos, form, direction, sub) = case[:5]
    return {'sources': srcs, 'position': pos, 'call_form': form, 'direction': direction, 'through_subclass': sub,
            'other_handlers_on_containing_class': case[5] if len(case) > 5 else 'none', 'outer_holds_inner_as': case[6] if len(case) > 6 else 'plain'}


def check(case: t.Any, ctx: Ctx) -> None:
    import pane
    _ensure_global()
    (srcs, pos, form, direction, sub) = case[:5]
    other = case[5] if len(case) > 5 else 'none'
    inner_wrap = case[6] if len(case) > 6 else 'plain'
    STRICT[0] = bool(case[7]) if len(case) > 7 else False
    srcs = list(srcs)
    if pos != 'direct' and 'F' in srcs:
        srcs.remove('F')
    if pos in ('outer-field', 'top-List'):
        srcs = [s for s in srcs if s not in ('O', 'I')]
    if pos == 'top-List':
        srcs = [s for s in srcs if s != 'E']
    if 'O' in srcs and 'I' in srcs:
        pass  # the subclass's own custom= replaces the inherited one; O wins either way

    # ---- marker type ------------------------------------------------------------------------
    ns: t.Dict[str, t.Any] = {}
    if 'P' in srcs:
        pconv = _label_conv('P')
        ns['_converter'] = classmethod(lambda cls, *args, handlers=None: pconv)
    M = type('M', (), ns)
    _KEEP.append(M)
    GLOBAL_TABLE.clear()
    if 'G' in srcs:
        GLOBAL_TABLE[M] = _label_conv('G')

    def class_custom(label: str) -> t.Any:
        return {M: _label_conv(label)}

    wrap = {'direct': M, 'List': t.List[M], 'Dict': t.Dict[str, M], 'Optional': t.Optional[M], 'Tuple': t.Tuple[M, int],
            'outer-field': M, 'top-List': t.List[M], 'Bag': Bag[M], 'Dict-of-Bag': t.Dict[str, Bag[M]],  # type: ignore
            'List[Any]': t.List[t.Any], 'Any': t.Any, 'Tuple[Any, int]': t.Tuple[t.Any, int], 'Dict[str, Any]': t.Dict[str, t.Any]}[pos]
    wrap_data = {'direct': 7, 'List': [7], 'Dict': {'k': 7}, 'Optional': 7, 'Tuple': [7, 1], 'outer-field': 7, 'top-List': [7],
                 'Bag': [7], 'Dict-of-Bag': {'k': [7]}, 'List[Any]': [7], 'Any': 7, 'Tuple[Any, int]': [7, 1], 'Dict[str, Any]': {'k': 7}}[pos]

    def unwrap(x: t.Any) -> t.Any:
        if pos in ('Bag', 'Dict-of-Bag'):
            b = x['k'] if pos == 'Dict-of-Bag' else x
            return b.items[0] if isinstance(b, Bag) else b[0]
        if pos in ('List', 'Tuple', 'top-List', 'List[Any]', 'Tuple[Any, int]'):
            return x[0]
        if pos in ('Dict', 'Dict[str, Any]'):
            return x['k']
        return x

    # ---- classes --------------------------------------------------------------------------------
    class _Unrelated:
        pass

    def declining(ty: t.Any, args: t.Any, *, handlers: t.Any) -> t.Any:
        return NotImplemented
    base_kw: t.Dict[str, t.Any] = {'custom': class_custom('I')} if 'I' in srcs else {}
    if 'I' not in srcs and other == 'base-other-type':
        base_kw = {'custom': {_Unrelated: _label_conv('unrelated')}}
    Base = type('Base', (pane.PaneBase,), {'__annotations__': {}}, **base_kw)
    inner_ns: t.Dict[str, t.Any] = {'__annotations__': {'m': wrap}}
    if 'F' in srcs:
        inner_ns['m'] = pane.field(converter=_label_conv('F'))
    inner_kw: t.Dict[str, t.Any] = {'custom': class_custom('O')} if 'O' in srcs else {}
    if 'O' not in srcs and 'I' not in srcs and other == 'mapping-other-type':
        inner_kw = {'custom': {_Unrelated: _label_conv('unrelated')}}
    elif 'O' not in srcs and 'I' not in srcs and other == 'declining-callable':
        inner_kw = {'custom': declining}
    Inner = type('Inner', (Base,), inner_ns, **inner_kw)
    InnerUsed = type('InnerSub', (Inner,), {'__annotations__': {}}) if sub else Inner
    held: t.Any = {'plain': InnerUsed, 'Optional': t.Optional[InnerUsed], 'List': t.List[InnerUsed], 'Union': t.Union[int, InnerUsed]}[inner_wrap]
    outer_ns: t.Dict[str, t.Any] = {'__annotations__': {'inner': held, 'om': wrap} if pos == 'outer-field' else {'inner': held}}
    if pos == 'outer-field' and 'F' in srcs:
        outer_ns['om'] = pane.field(converter=_label_conv('F'))
    outer_kw: t.Dict[str, t.Any] = {'custom': class_custom('E')} if 'E' in srcs else {}
    Outer = type('Outer', (pane.PaneBase,), outer_ns, **outer_kw)
    _KEEP.extend([Base, Inner, InnerUsed, Outer])

    # ---- call-level handlers ----------------------------------------------------------------------
    custom: t.Any = None
    if 'C' in srcs:
        cconv = _label_conv('C')

        def handler(ty: t.Any, args: t.Any, *, handlers: t.Any) -> t.Any:
            return cconv if ty is M else NotImplemented

        def decline1(ty: t.Any, args: t.Any, *, handlers: t.Any) -> t.Any:
            return NotImplemented

        def decline2(ty: t.Any, args: t.Any, *, handlers: t.Any) -> t.Any:
            raise NotImplementedError()
        custom = {'callable': handler, 'sequence': [handler], 'sequence-declining': [decline1, decline2, handler], 'mapping': {M: cconv}}[form]

    present = [s for s in ORDER if s in srcs]
    expected = present[0] if present else None
    ctx.label(f"pos:{pos}", f"dir:{direction}", f"winner:{expected}", f"nsrc:{min(len(present), 4)}", f"other:{other}", f"held:{inner_wrap}")
    ctx.nontrivial(len(present) >= 2 and pos != 'outer-field')
    if STRICT[0]:
        ctx.label('strict-converters')
    ident = (f"{'strict converters, ' if STRICT[0] else ''}sources {present} (call form {form}), M at {pos}{' via a subclass of the containing class' if sub else ''}, direction {direction}, "
             f"other handlers on the containing class: {other}, Outer holds Inner as {inner_wrap}")

    if pos == 'top-List':
        T: t.Any = wrap
        data: t.Any = wrap_data
        get = unwrap
    elif pos == 'outer-field':
        T = Outer
        data = {'inner': {'m': 7} if False else {}, 'om': wrap_data}
        get = lambda x: x.om if direction == 'from' else x['om']  # noqa: E731
    else:
        T = Outer
        data = {'inner': [{'m': wrap_data}] if inner_wrap == 'List' else {'m': wrap_data}}
        first = (lambda y: y[0]) if inner_wrap == 'List' else (lambda y: y)
        get = (lambda x: unwrap(first(x.inner).m)) if direction == 'from' else (lambda x: unwrap(first(x['inner'])['m']))
    if pos == 'outer-field':
        # Inner.m has type `wrap` too: give it a value converted by whatever applies there; not observed
        data['inner'] = [{'m': wrap_data}] if inner_wrap == 'List' else {'m': wrap_data}

    ctx.evaluated()
    if direction in ('ctor-outer', 'replace-outer'):
        present_o = [s_ for s_ in ORDER if s_ in srcs and s_ != 'C']
        expected_o = present_o[0] if present_o else None
        if direction == 'replace-outer':
            blank = Outer.make_unchecked(**{k_: None for k_ in data})
            (k, got) = outcome(lambda: blank.__replace__(**data))
        else:
            (k, got) = outcome(lambda: Outer(**data))
        if expected_o is None:
            if k == 'ok':
                ctx.fail('no-source-no-converter', f"ctor-outer:{pos}", f"{ident}: no source provides a converter for M, but Outer(inner=...) returned {short(got, 100)}")
            return
        if k != 'ok':
            ctx.fail('precedence-ctor', f"outer:{expected_o}:{type(got).__name__}", f"{ident}: Outer(inner={data['inner']!r}) raised {type(got).__name__}: {str(got)[:200]}; "
                     f"Outer.from_data of the same data gives the converter of source {expected_o}")
            return
        x = got.inner[0] if inner_wrap == 'List' else got.inner
        seen = unwrap(x.m)
        if not isinstance(seen, Labeled) or seen.source != expected_o:
            ctx.fail('precedence-ctor', f"outer:want-{expected_o}-got-{getattr(seen, 'source', '?')}", f"{ident}: Outer(inner={data['inner']!r}).inner.m was produced by "
                     f"{getattr(seen, 'source', seen)!r}; the documented order (and Outer.from_data of the same data) gives {expected_o!r}")
        return
    if direction == 'ctor':
        present_c = [s_ for s_ in ('F', 'O', 'I', 'P', 'G') if s_ in srcs]
        expected_c = present_c[0] if present_c else None
        (k, got) = outcome(lambda: InnerUsed(m=wrap_data))
        if expected_c is None:
            if k == 'ok':
                ctx.fail('no-source-no-converter', f"ctor:{pos}", f"{ident}: no source provides a converter for M, but Inner(m=...) returned {short(got, 100)}")
            return
        if k != 'ok':
            ctx.fail('precedence-ctor', f"{expected_c}:{type(got).__name__}", f"{ident}: Inner(m={wrap_data!r}) raised {type(got).__name__}: {str(got)[:200]}; "
                     f"from_data of the same field gives the converter of source {expected_c}")
            return
        seen = unwrap(got.m)
        if not isinstance(seen, Labeled) or seen.source != expected_c:
            ctx.fail('precedence-ctor', f"want-{expected_c}-got-{getattr(seen, 'source', '?')}", f"{ident}: Inner(m={wrap_data!r}).m was produced by "
                     f"{getattr(seen, 'source', seen)!r}, the documented order (as on the data paths) gives {expected_c!r}")
        return
    if direction == 'from':
        (k, got) = outcome(lambda: pane.from_data(data, T, custom=custom))
        if expected is None:
            inner_sources = [s for s in ORDER if s in srcs]
            if k == 'ok' or not isinstance(got, TypeError):
                ctx.fail('no-source-no-converter', pos, f"{ident}: no source provides a converter for M, expected TypeError, got {k}: {short(got, 100)}")
            return
        if k != 'ok':
            ctx.fail('precedence', f"{expected}:{type(got).__name__}", f"{ident}: raised {type(got).__name__}: {str(got)[:200]}")
            return
        seen = get(got)
        if not isinstance(seen, Labeled) or seen.source != expected:
            ctx.fail('precedence', f"want-{expected}-got-{getattr(seen, 'source', '?')}", f"{ident}: the value was produced by {getattr(seen, 'source', seen)!r}, the documented order gives {expected!r}")
        return
    # into_data: build the typed value unchecked, serialise
    if expected is None:
        return
    if pos == 'top-List':
        x: t.Any = [Labeled('x', 7)]
    else:
        # (typed positions are serialised by the declared type M whatever the value is; untyped ones by the value's runtime type,
        #  so there the value has to be a real instance of M)
        mv: t.Any = M() if (pos in ANY_POSITIONS or STRICT[0]) else Labeled('x', 7)
        inner_val: t.Any = {'direct': mv, 'List': [mv], 'Dict': {'k': mv}, 'Optional': mv, 'Tuple': (mv, 1), 'outer-field': mv, 'Bag': Bag([mv]),
                            'Dict-of-Bag': {'k': Bag([mv])}, 'List[Any]': [mv], 'Any': mv, 'Tuple[Any, int]': (mv, 1), 'Dict[str, Any]': {'k': mv}}[pos]
        inner_inst = InnerUsed.make_unchecked(m=inner_val)
        if inner_wrap == 'List':
            inner_inst = [inner_inst]
        x = Outer.make_unchecked(inner=inner_inst, om=inner_val) if pos == 'outer-field' else Outer.make_unchecked(inner=inner_inst)
    if pos == 'Optional' and expected in ('P', 'G', 'O', 'I', 'E', 'C', 'F'):
        pass
    (k, d) = outcome(lambda: pane.into_data(x, T, custom=custom))
    if k != 'ok':
        ctx.fail('precedence-into', f"{expected}:{type(d).__name__}", f"{ident}: into_data raised {type(d).__name__}: {str(d)[:200]}")
        return
    seen = get(d)
    if seen != f"{expected}-out":
        ctx.fail('precedence-into', f"want-{expected}-got-{seen}"[:40], f"{ident}: serialised by {seen!r}, the documented order gives '{expected}-out'")


# ---- mapping-form exactness, global-handler placement ------------------------------------------------------

ANY_SCALAR = [f"any-scalar:{src}:{pos}" for src in ('call', 'class', 'inherited', 'enclosing', 'class+unrelated-call')
              for pos in ('Any', 'list', 'tuple', 'List[Any]', 'Dict[str, Any]', 'int')]


def check_any_scalar(case: str, ctx: Ctx) -> None:
    """A handler for a plain scalar type (ints are written halved) reaches ints that sit at untyped positions, on output, from every source."""
    import pane
    from .c17 import _handlers
    (_, src, pos) = case.split(':')
    H = _handlers()['double']      # {int: Mul(2)}: from_data doubles, into_data halves
    ftype = {'Any': t.Any, 'list': list, 'tuple': tuple, 'List[Any]': t.List[t.Any], 'Dict[str, Any]': t.Dict[str, t.Any], 'int': int}[pos]
    fval = {'Any': 10, 'list': [10, 'a'], 'tuple': (10, None), 'List[Any]': [10], 'Dict[str, Any]': {'k': 10}, 'int': 10}[pos]
    want = {'Any': 5, 'list': [5, 'a'], 'tuple': (5, None), 'List[Any]': [5], 'Dict[str, Any]': {'k': 5}, 'int': 5}[pos]
    base_kw = {'custom': H} if src == 'inherited' else {}
    Base = type('ASBase', (pane.PaneBase,), {'__annotations__': {}}, **base_kw)
    Inner = type('ASInner', (Base,), {'__annotations__': {'f': ftype}}, **({'custom': H} if src in ('class', 'class+unrelated-call') else {}))
    Outer = type('ASOuter', (pane.PaneBase,), {'__annotations__': {'inner': Inner}}, **({'custom': H} if src == 'enclosing' else {}))
    _KEEP.extend([Base, Inner, Outer])
    x = Outer.make_unchecked(inner=Inner.make_unchecked(f=fval))
    custom: t.Any = H if src == 'call' else ({bytes: __import__('pane.convert', fromlist=['make_converter']).make_converter(bytes)} if src == 'class+unrelated-call' else None)
    (k, d) = outcome(lambda: pane.into_data(x, Outer, custom=custom))
    got = d['inner']['f'] if k == 'ok' else d
    if k != 'ok' or got != want or type(got) is not type(want):
        ctx.fail('precedence-into', f"any-scalar:{src}:{pos}", f"a handler that writes ints halved, given at {src} level; an int at a field typed {pos}: "
                 f"into_data wrote {short(got, 80)}, expected {want!r}")


def misc_cases(shard: int, nshards: int) -> t.Iterator[t.Any]:
    for (i, c) in enumerate([*ANY_SCALAR, 'scalar-handler-without-serializer:call', 'scalar-handler-without-serializer:class', 'three-levels-shared-handlers', 'one-handler-two-roles:enclosing-first', 'one-handler-two-roles:call-first', 'enum-values:call', 'enum-values:class', 'mapping-not-empty-tuple', 'mapping-not-subclass', 'mapping-not-parameterised', 'global-not-for-int', 'global-before-sequence', 'global-after-protocol',
                             'global-before-builtin-list', 'global-before-builtin-dict', 'global-before-builtin-tuple', 'global-nested-in-dataclass']):
        if i % nshards == shard:
            yield c


def check_misc(case: str, ctx: Ctx) -> None:
    import pane
    _ensure_global()
    ctx.label(case.split(':')[0] if case.startswith('any-scalar') else case)
    ctx.nontrivial(True)
    GLOBAL_TABLE.clear()
    if case.startswith('any-scalar:'):
        check_any_scalar(case, ctx)
        return
    conv = _label_conv('C')
    if case.startswith('scalar-handler-without-serializer'):
        # a converter with the three documented methods only (no into_data of its own) for a scalar interchange type: convert() and the
        # constructor serialise first - a plain int is its own serialised form - and then read through the handler, like from_data
        from pane.converters import Converter
        from pane.errors import ParseInterrupt, WrongTypeError

        class Hundred(Converter):      # type: ignore
            def expected(self, plural: bool = False) -> str:
                return 'an int (read plus 100)'

            def try_convert(self, val: t.Any) -> t.Any:
                if type(val) is not int:
                    raise ParseInterrupt()
                return val + 100

            def collect_errors(self, val: t.Any) -> t.Any:
                return None if type(val) is int else WrongTypeError(self.expected(), val)
        H = {int: Hundred()}
        # ... and the same for a type which is not a scalar: the built-in serialiser writes it (the handler's converter brings none)
        import datetime as _dt

        class DayReader(Converter):      # type: ignore
            def expected(self, plural: bool = False) -> str:
                return 'a day like 2020-01-02 or 20200102'

            def try_convert(self, val: t.Any) -> t.Any:
                if not isinstance(val, str):
                    raise ParseInterrupt()
                try:
                    return _dt.date.fromisoformat(val) if '-' in val else _dt.datetime.strptime(val, '%Y%m%d').date()
                except ValueError:
                    raise ParseInterrupt() from None

            def collect_errors(self, val: t.Any) -> t.Any:
                try:
                    self.try_convert(val)
                    return None
                except ParseInterrupt:
                    return WrongTypeError(self.expected(), val)
        HD = {_dt.date: DayReader()}
        day = _dt.date(2020, 1, 2)
        for (what, f, want) in ((('into_data(day, date)', lambda: pane.into_data(day, _dt.date, custom=HD), '2020-01-02'), ('into_data(day)', lambda: pane.into_data(day, custom=HD), '2020-01-02'),
                                 ('convert(day, date)', lambda: pane.convert(day, _dt.date, custom=HD), day), ('into_data([day], List[date])', lambda: pane.into_data([day], t.List[_dt.date], custom=HD), ['2020-01-02']))
                                if case.endswith('call') else
                                (('Event(when=day)', lambda: type('Event', (pane.PaneBase,), {'__annotations__': {'when': _dt.date}}, custom=HD)(when=day).when, day),)):
            ctx.evaluated()
            (k, r) = outcome(f)
            if k != 'ok' or r != want:
                ctx.fail('both-directions', f"{case.split(':')[0]}:date:{type(r).__name__ if k != 'ok' else 'value'}", f"{case}: {what} under a handler {{date: <converter without into_data>}} gave "
                         f"{short(r, 80) if k == 'ok' else type(r).__name__ + ': ' + str(r)[:150]}; expected {want!r}")
                return
        if case.endswith('call'):
            calls = [('from_data(5, int)', lambda: pane.from_data(5, int, custom=H), 105), ('convert(5, int)', lambda: pane.convert(5, int, custom=H), 105),
                     ('convert([5], List[int])', lambda: pane.convert([5], t.List[int], custom=H), [105]),
                     ('convert(5, Optional[str])', lambda: pane.convert(5, t.Optional[str], custom=H), pane.ConvertError)]
        else:
            Reg = type('Reg', (pane.PaneBase,), {'__annotations__': {'addr': int}}, custom=H)
            calls = [('Reg.from_data', lambda: Reg.from_data({'addr': 5}).addr, 105), ('Reg(addr=5)', lambda: Reg(addr=5).addr, 105),
                     ('Reg.from_obj', lambda: Reg.from_obj({'addr': 5}).addr, 105)]
        for (what, f, want) in calls:
            ctx.evaluated()
            (k, r) = outcome(f)
            ok = (k == 'ce') if want is pane.ConvertError else (k == 'ok' and r == want)
            if not ok:
                ctx.fail('both-directions', f"{case.split(':')[0]}:{type(r).__name__ if k != 'ok' else 'value'}", f"{case}: {what} under a handler {{int: <converter without into_data>}} gave "
                         f"{short(r, 80) if k == 'ok' else type(r).__name__ + ': ' + str(r)[:150]}; expected {want if want is not pane.ConvertError else 'ConvertError'}")
                return
        return
    if case == 'three-levels-shared-handlers':
        # Top > Mid > Leaf, where Top and Leaf inherit the very same custom= from a common base and Mid, in between, has handlers of
        # its own for the type: each class's own (or inherited) handlers come first for its own fields - Leaf's are Leaf's, although
        # the same objects already came along from Top
        M = type('M', (), {})
        (bconv, mconv) = (_label_conv('B'), _label_conv('Mid'))
        Base = type('SharedBase', (pane.PaneBase,), {'__annotations__': {}}, custom={M: bconv})
        Leaf = type('Leaf', (Base,), {'__annotations__': {'v': M}})
        Mid = type('Mid', (pane.PaneBase,), {'__annotations__': {'leaf': Leaf, 'w': M, 'leaves': t.List[t.Optional[Leaf]]}}, custom={M: mconv})
        Top = type('Top', (Base,), {'__annotations__': {'mid': Mid, 'u': M}})
        _KEEP.extend([M, Base, Leaf, Mid, Top])
        data = {'mid': {'leaf': {'v': 7}, 'w': 7, 'leaves': [{'v': 7}, None]}, 'u': 7}
        ctx.evaluated()
        (k, r) = outcome(lambda: pane.from_data(data, Top))
        got = (r.u.source, r.mid.w.source, r.mid.leaf.v.source, r.mid.leaves[0].v.source) if k == 'ok' else r
        if got != ('B', 'Mid', 'B', 'B'):
            ctx.fail('precedence', 'three-levels-shared-handlers:from', f"Top(SharedBase) > Mid(custom=own) > Leaf(SharedBase): sources of (top.u, mid.w, mid.leaf.v, mid.leaves[0].v) = {got!r}; "
                     f"expected ('B', 'Mid', 'B', 'B')")
            return
        x = Top.make_unchecked(mid=Mid.make_unchecked(leaf=Leaf.make_unchecked(v=Labeled('x', 7)), w=Labeled('x', 7), leaves=[Leaf.make_unchecked(v=Labeled('x', 7)), None]), u=Labeled('x', 7))
        (k, d) = outcome(lambda: pane.into_data(x, Top))
        got = (d['u'], d['mid']['w'], d['mid']['leaf']['v'], d['mid']['leaves'][0]['v']) if k == 'ok' else d
        if got != ('B-out', 'Mid-out', 'B-out', 'B-out'):
            ctx.fail('precedence-into', 'three-levels-shared-handlers', f"the same on output: {got!r}; expected ('B-out', 'Mid-out', 'B-out', 'B-out')")
        return
    if case.startswith('one-handler-two-roles'):
        # one handler object (callable form) serves as the custom= of an enclosing dataclass and, in another conversion, as the custom=
        # of a call; the nested class has a handler of its own.  Call handlers come before the nested class's, the enclosing class's
        # after them - in whichever order the two conversions run (converters are memoised by type *and* handlers)
        M = type('M', (), {})
        (hconv, oconv) = (_label_conv('H'), _label_conv('O'))

        def shared(ty: t.Any, args: t.Any, *, handlers: t.Any) -> t.Any:
            return hconv if ty is M else NotImplemented
        Inner = type('Inner', (pane.PaneBase,), {'__annotations__': {'m': M}}, custom={M: oconv})
        Outer = type('Outer', (pane.PaneBase,), {'__annotations__': {'inner': Inner, 't': M}}, custom=shared)
        _KEEP.extend([M, Inner, Outer])
        steps = [('enclosing', lambda: pane.from_data({'inner': {'m': 7}, 't': 7}, Outer), lambda r: (r.inner.m.source, r.t.source), ('O', 'H')),
                 ('call', lambda: pane.from_data({'m': 7}, Inner, custom=shared), lambda r: (r.m.source,), ('H',)),
                 ('call-in-list', lambda: pane.from_data([{'m': 7}], t.List[Inner], custom=shared), lambda r: (r[0].m.source,), ('H',)),
                 ('enclosing-again', lambda: pane.from_data({'inner': {'m': 7}, 't': 7}, Outer), lambda r: (r.inner.m.source, r.t.source), ('O', 'H'))]
        if case.endswith('call-first'):
            steps = [steps[1], steps[2], steps[0], steps[3]]
        for (what, f, get, want) in steps:
            ctx.evaluated()
            (k, r) = outcome(f)
            got = get(r) if k == 'ok' else r
            if got != want:
                ctx.fail('precedence', f"one-handler-two-roles:{what}", f"{case}: step '{what}' produced sources {got!r}, the documented order gives {want!r} "
                         f"(H = the shared handler, O = the nested class's own)")
                return
        return
    if case.startswith('enum-values'):
        # "in both directions": a handler for the type of an enum's values (here: ints are kept as hex text) that is used to read
        # a member's value is also used to write it - what the enum writes under the handlers is what it reads under them
        import enum
        from pane.converters import Converter

        class HexInt(Converter):      # type: ignore
            def expected(self, plural: bool = False) -> str:
                return 'hex text'

            def try_convert(self, val: t.Any) -> t.Any:
                from pane.errors import ParseInterrupt
                if not isinstance(val, str) or not val.startswith('0x'):
                    raise ParseInterrupt()
                return int(val, 16)

            def collect_errors(self, val: t.Any) -> t.Any:
                from pane.errors import WrongTypeError
                return None if isinstance(val, str) and val.startswith('0x') else WrongTypeError(self.expected(), val)

            def into_data(self, val: t.Any) -> t.Any:
                return hex(val)
        E = enum.Enum('E', {'A': 10, 'B': 11})
        hx = {int: HexInt()}
        if case.endswith('call'):
            read = lambda d: pane.from_data(d, E, custom=hx)      # noqa: E731
            write = lambda x: pane.into_data(x, E, custom=hx)     # noqa: E731
            member = lambda x: x                                  # noqa: E731
        else:
            H = type('EnumHolder', (pane.PaneBase,), {'__annotations__': {'e': E}}, custom=hx)
            read = lambda d: pane.from_data({'e': d}, H)          # noqa: E731
            write = lambda x: pane.into_data(x, H)['e']           # noqa: E731
            member = lambda x: x.e                                # noqa: E731
        (k, r) = outcome(lambda: read('0xa'))
        if k != 'ok' or member(r) is not E.A:
            return      # the handler is not consulted for the values of an enum at all: nothing to be symmetric about
        ctx.evaluated()
        (k2, d) = outcome(lambda: write(r))
        (k3, back) = outcome(lambda: read(d)) if k2 == 'ok' else ('-', None)
        if k2 != 'ok' or d != '0xa' or k3 != 'ok' or member(back) is not E.A:
            ctx.fail('both-directions', case, f"enum E(A=10, B=11) under a handler for int (hex text): '0xa' reads as E.A through the handler, but E.A is "
                     f"written as {d!r} ({k2}), which reads back as {short(back, 60)} ({k3})")
        return
    if case == 'mapping-not-empty-tuple':
        for (nm, T) in (('Tuple[()]', t.Tuple[()]), ('tuple[()]', tuple[()])):
            (k, r) = outcome(lambda: pane.from_data([], T, custom={tuple: conv}))
            if k != 'ok' or r != ():
                ctx.fail('mapping-form-exact', 'empty-tuple', f"a mapping-form handler for tuple was used for the parameterised type {nm}: {r!r}")
                return
        (k, r) = outcome(lambda: pane.from_data([1], tuple, custom={tuple: conv}))
        if k != 'ok' or r != Labeled('C', [1]):
            ctx.fail('mapping-form-exact', 'bare-tuple', f"a mapping-form handler for tuple was not used for bare tuple: {r!r}")
        return
    if case == 'mapping-not-subclass':
        class M1:
            pass

        class M2(M1):
            pass
        (k, r) = outcome(lambda: pane.from_data(7, M2, custom={M1: conv}))
        if k == 'ok':
            ctx.fail('mapping-form-exact', 'subclass', f"a mapping-form handler for M1 was used for its subclass M2: {r!r}")
        (k, r) = outcome(lambda: pane.from_data(7, M1, custom={M1: conv}))
        if k != 'ok' or r != Labeled('C', 7):
            ctx.fail('mapping-form-exact', 'exact', f"a mapping-form handler for M1 was not used for M1: {r!r}")
    elif case == 'mapping-not-parameterised':
        (k, r) = outcome(lambda: pane.from_data([1], t.List[int], custom={list: conv}))
        if k != 'ok' or r != [1]:
            ctx.fail('mapping-form-exact', 'parameterised', f"a mapping-form handler for list was used for List[int]: {r!r}")
        (k, r) = outcome(lambda: pane.from_data([1], list, custom={list: conv}))
        if k != 'ok' or r != Labeled('C', [1]):
            ctx.fail('mapping-form-exact', 'bare', f"a mapping-form handler for list was not used for bare list: {r!r}")
    elif case == 'global-not-for-int':
        GLOBAL_TABLE[int] = _label_conv('G')
        (k, r) = outcome(lambda: pane.from_data(7, int))
        if k != 'ok' or r != 7:
            ctx.fail('global-placement', 'scalar', f"a registered global handler overrode the built-in int converter: {r!r}")
    elif case == 'global-before-sequence':
        class MyList(list):
            pass
        GLOBAL_TABLE[MyList] = _label_conv('G')
        (k, r) = outcome(lambda: pane.from_data([1], MyList))
        if k != 'ok' or r != Labeled('G', [1]):
            ctx.fail('global-placement', 'structural', f"a registered global handler for a list subclass was not used before the sequence built-in: {r!r}")
    elif case.startswith('global-before-builtin-'):
        ty = {'list': list, 'dict': dict, 'tuple': tuple}[case.rsplit('-', 1)[1]]
        data = {'list': [1], 'dict': {'a': 1}, 'tuple': [1]}[case.rsplit('-', 1)[1]]
        GLOBAL_TABLE[ty] = _label_conv('G')
        (k, r) = outcome(lambda: pane.from_data(data, ty))
        if k != 'ok' or r != Labeled('G', data):
            ctx.fail('global-placement', 'builtin-container', f"a registered global handler for {ty.__name__} must be consulted before the structural built-in: from_data({data!r}, {ty.__name__}) gave {r!r}")
        (k, r) = outcome(lambda: pane.into_data(data, ty))
        if k != 'ok' or r != 'G-out':
            ctx.fail('global-placement', 'builtin-container-into', f"into_data({data!r}, {ty.__name__}) with a registered global handler for {ty.__name__} gave {r!r}")
    elif case == 'global-nested-in-dataclass':
        GLOBAL_TABLE[list] = _label_conv('G')
        Holder = type('GHolder', (pane.PaneBase,), {'__annotations__': {'xs': list, 'ys': t.Optional[list]}, 'ys': None})
        (k, r) = outcome(lambda: Holder.from_data({'xs': [1], 'ys': [2]}))
        if k != 'ok' or r.xs != Labeled('G', [1]) or r.ys != Labeled('G', [2]):
            ctx.fail('global-placement', 'builtin-container-nested', f"a registered global handler for list is not used for list fields of a dataclass: {r!r}")
    else:
        pc = _label_conv('P')

        class MP:
            @classmethod
            def _converter(cls, *args: t.Any, handlers: t.Any = None) -> t.Any:
                return pc
        GLOBAL_TABLE[MP] = _label_conv('G')
        (k, r) = outcome(lambda: pane.from_data(7, MP))
        if k != 'ok' or r != Labeled('P', 7):
            ctx.fail('global-placement', 'protocol', f"the type's own converter protocol should win over a registered global handler: {r!r}")
    GLOBAL_TABLE.clear()


def suites(tier: str) -> t.List[Suite]:
    big = tier == 'thorough'
    return [
        Suite('precedence', check, strategy=cases, examples=6000 if big else 500, budget_s=300 if big else 40, render=render),
        Suite('misc', check_misc, cases=misc_cases, budget_s=60),
    ]
