"""
C02  Strictness: no coercion across value kinds.

Enumerated, not sampled: value instances of 12 kinds x 40 target types x 10
embedding contexts.  Oracle: a hand-written kind-compatibility table taken from
the property statement and docs/index.md.  A cell whose value kind is not among
the kinds the target's family admits must raise ConvertError - in every context.
Cells inside the table (same kind, or a documented widening / parse-from-string)
are decided by the reference interpreter; bool -> number cells are unspecified.
"""

from __future__ import annotations

import itertools
import typing as t

from ..core import Suite, Ctx
from .. import tg, cg
from ..codec import MySeq, MyMap, short
from ..oracles import outcome
from ..same import same

ID = 'C02'
RULE = ("exhaustive product: 38 value instances (12 kinds: str, bytes, bytearray, bool, int, float, complex, None, list, tuple, other Sequence, "
        "dict, other Mapping) x 40 target types (every scalar, literal, enums, user subclasses, container families, struct/tuple literals, "
        "struct-only / struct+tuple / tuple-only dataclasses) x 10 contexts (top level, list element, tuple slot, mapping value, mapping key, "
        "Optional, union with a never-matching partner, struct-literal field, dataclass field by name, dataclass field by position). "
        "Non-trivial = a cross-kind cell in a context other than top level; distinct by cell.")
ASSUMPTIONS = [
    "the only cross-kind accepts are: int -> float -> complex; int/float/str -> Decimal, Fraction; str -> date/time/datetime/paths/Pattern[str]; bytes <-> bytearray",
    "bool given to int/float/complex/Decimal/Fraction/numeric enum targets is unspecified (bool is an int subclass; the statement forbids only int -> bool)",
]

S = lambda n: ('s', n)  # noqa: E731

VALUES: t.List[t.Tuple[str, t.Any]] = [
    ('str', ''), ('str', '5'), ('str', '1.5'), ('str', 'True'), ('str', 'a'), ('str', 'xy'), ('str', '2023-01-05'), ('str', 'None'),
    ('bytes', b''), ('bytes', b'5'), ('bytes', b'xy'), ('bytearray', bytearray(b'5')), ('bytearray', bytearray(b'xy')),
    ('bool', True), ('bool', False),
    ('int', 0), ('int', 1), ('int', 5), ('int', -3),
    ('float', 0.0), ('float', 1.0), ('float', 2.5), ('float', float('nan')),
    ('complex', 1 + 0j), ('complex', 2j),
    ('none', None),
    ('list', []), ('list', [5]), ('list', ['x', 'y']), ('list', [[1]]),
    ('tuple', ()), ('tuple', (5,)), ('tuple', ('x', 'y')),
    ('seq', MySeq([5])), ('seq', MySeq(['x', 'y'])), ('list', ['x', 5]), ('list', ['x', 'y', 5]), ('tuple', ('x', '5')),
    ('dict', {}), ('dict', {'0': 5}), ('dict', {'x': 5}),
    ('map', MyMap({'x': 5})),
]
SEQK = {'list', 'tuple', 'seq'}
MAPK = {'dict', 'map'}

_CLS_STRUCT = ('cls', {'name': 'C02Struct', 'fields': [{'name': 'x', 'type': S('int')}], 'opts': {}})
_CLS_BOTH = ('cls', {'name': 'C02Both', 'fields': [{'name': 'x', 'type': S('int')}], 'opts': {'in_format': ['struct', 'tuple']}})
_CLS_TUPLE = ('cls', {'name': 'C02Tuple', 'fields': [{'name': 'a', 'type': S('str')}, {'name': 'b', 'type': S('str')}], 'opts': {'in_format': ['tuple']}})
_CLS_TUPLE_ANY = ('cls', {'name': 'C02TupleAny', 'fields': [{'name': 'a', 'type': S('any')}, {'name': 'b', 'type': S('any'), 'default': ['value', 0]}],
                          'opts': {'in_format': ['tuple', 'struct']}})

_CLS_TUPLE_NONINIT = ('cls', {'name': 'C02TupleNonInit', 'fields': [
    {'name': 'a', 'type': S('str')}, {'name': 'slot', 'type': S('str'), 'init': False, 'exclude': True, 'default': ['value', 'K']},
    {'name': 'n', 'type': S('int')}], 'opts': {'in_format': ['tuple', 'struct']}})
_CLS_TUPLE_NONINIT1 = ('cls', {'name': 'C02TupleNonInit1', 'fields': [
    {'name': 'slot', 'type': S('str'), 'init': False, 'exclude': True, 'default': ['value', 'K']},
    {'name': 'n', 'type': S('int')}], 'opts': {'in_format': ['tuple']}})

# (name, spec, admitted value kinds)
TARGETS: t.List[t.Tuple[str, t.Any, t.Set[str]]] = [
    ('int', S('int'), {'int'}), ('float', S('float'), {'int', 'float'}), ('complex', S('complex'), {'int', 'float', 'complex'}),
    ('bool', S('bool'), {'bool'}), ('str', S('str'), {'str'}), ('bytes', S('bytes'), {'bytes', 'bytearray'}),
    ('bytearray', S('bytearray'), {'bytes', 'bytearray'}), ('None', S('none'), {'none'}),
    ('Decimal', S('Decimal'), {'int', 'float', 'str'}), ('Fraction', S('Fraction'), {'int', 'float', 'str'}),
    ('date', S('date'), {'str'}), ('time', S('time'), {'str'}), ('datetime', S('datetime'), {'str'}),
    ('PurePath', S('PurePath'), {'str'}), ('PathLike', S('PathLike'), {'str'}), ('Pattern[str]', S('Pattern[str]'), {'str'}),
    ('Pattern', S('rePattern'), {'str'}), ('Pattern[bytes]', S('Pattern[bytes]'), {'bytes', 'bytearray'}),
    ("Literal['5', 5, True]", ('lit', ('5', 5, True)), {'str', 'int', 'bool'}), ("Literal[None, 'a']", ('lit', (None, 'a')), {'none', 'str'}),
    ('IntE', ('enum', 'IntE'), {'int'}), ('StrE', ('enum', 'StrE'), {'str'}), ('BoolE', ('enum', 'BoolE'), {'bool'}),
    ('FloatE', ('enum', 'FloatE'), {'int', 'float'}), ('IE(IntEnum)', ('enum', 'IE'), {'int'}), ('SE(str, Enum)', ('enum', 'SE'), {'str'}),
    ('MyInt', ('sub', 'int'), {'int'}), ('MyFloat', ('sub', 'float'), {'int', 'float'}), ('MyStr', ('sub', 'str'), {'str'}),
    ('MyBytes', ('sub', 'bytes'), {'bytes', 'bytearray'}),
    ('List[int]', ('seq', 'List', S('int')), SEQK), ('List[str]', ('seq', 'List', S('str')), SEQK), ('list', ('seq', 'list_bare'), SEQK),
    ('Tuple[int, ...]', ('seq', 'TupleVar', S('int')), SEQK), ('Sequence[Any]', ('seq', 'Sequence', S('any')), SEQK),
    ('Set[int]', ('seq', 'Set', S('int')), SEQK), ('Deque[str]', ('seq', 'Deque', S('str')), SEQK),
    ('Tuple[int]', ('tup', 'Tuple', (S('int'),)), SEQK), ('Tuple[str, str]', ('tup', 'Tuple', (S('str'), S('str'))), SEQK),
    ('Tuple[()]', ('tup', 'Tuple', ()), SEQK),
    ('Dict[str, int]', ('map', 'Dict', S('str'), S('int')), MAPK), ('dict', ('map', 'dict_bare'), MAPK),
    ('Counter[str]', ('map', 'Counter', S('str')), MAPK),
    ("{'x': int}", ('struct', (('x', S('int')),)), MAPK), ('(int,)', ('tup', 'lit', (S('int'),)), SEQK), ('(str, str)', ('tup', 'lit', (S('str'), S('str'))), SEQK),
    ('dataclass[struct]', _CLS_STRUCT, MAPK), ('dataclass[struct+tuple]', _CLS_BOTH, SEQK | MAPK),
    ('dataclass[tuple](a: str, b: str)', _CLS_TUPLE, SEQK), ('dataclass[tuple+struct](a: Any, b: Any)', _CLS_TUPLE_ANY, SEQK | MAPK),
    ('dataclass[tuple+struct](a: str, slot: str = field(init=False), n: int)', _CLS_TUPLE_NONINIT, SEQK | MAPK),
    ('dataclass[tuple](slot: str = field(init=False), n: int)', _CLS_TUPLE_NONINIT1, SEQK),
    # type variables met unsubstituted stand for their bound / the union of their constraints, whatever kind of type the bound is
    ("TypeVar(bound=Union[int, float])", ('tv', 'bound', ('union', 'Union', (S('int'), S('float')))), {'int', 'float'}),
    ("TypeVar(bound=Optional[str])", ('tv', 'bound', ('union', 'Optional', (S('str'),))), {'str', 'none'}),
    ("TypeVar(bound=List[int])", ('tv', 'bound', ('seq', 'List', S('int'))), SEQK),
    ("TypeVar(bound=int)", ('tv', 'bound', S('int')), {'int'}),
    ("TypeVar(int, str)", ('tv', 'constrained', (S('int'), S('str'))), {'int', 'str'}),
    ('ValueOrList[int]', ('vol', S('int')), {'int'} | SEQK), ('ndarray[int64]', ('nd', 'int64'), {'int'} | SEQK),
]
LITERAL_TARGETS = {"{'x': int}", '(int,)', '(str, str)'}   # type literals: only at top level or inside other literals

NEVER = ('lit', ('\x00never',))
CONTEXTS = ['top', 'list-element', 'tuple-slot', 'mapping-value', 'mapping-key', 'optional', 'union-never', 'struct-field',
            'dataclass-by-name', 'dataclass-by-position', 'dataclass-constructor', 'dataclass-replace']


def embed(ctx_name: str, tspec: t.Any, v: t.Any, tname: str) -> t.Optional[t.Tuple[t.Any, t.Any]]:
    """-> (wrapper type spec, wrapper value) or None when the combination cannot be formed."""
    lit = tname in LITERAL_TARGETS
    if ctx_name == 'top':
        return tspec, v
    if ctx_name == 'struct-field':
        return ('struct', (('pad', S('int')), ('f', tspec))), {'pad': 0, 'f': v}
    if lit:
        return None
    if ctx_name == 'list-element':
        return ('seq', 'List', tspec), [0 if False else v]
    if ctx_name == 'tuple-slot':
        return ('tup', 'Tuple', (S('int'), tspec)), [7, v]
    if ctx_name == 'mapping-value':
        return ('map', 'Dict', S('str'), tspec), {'k': v}
    if ctx_name == 'mapping-key':
        if not tg.node(tspec).hashable:
            return None
        try:
            hash(v)
        except TypeError:
            return None
        return ('map', 'Dict', tspec, S('int')), {v: 1}
    if ctx_name == 'optional':
        if v is None:
            return None
        return ('union', 'Optional', (tspec,)), v
    if ctx_name == 'union-never':
        return ('union', 'Union', (tspec, NEVER)), v
    if ctx_name == 'dataclass-by-name':
        return ('cls', {'name': 'C02H', 'fields': [{'name': 'pad', 'type': S('int')}, {'name': 'f', 'type': tspec}], 'opts': {}}), {'pad': 0, 'f': v}
    if ctx_name == 'dataclass-by-position':
        return ('cls', {'name': 'C02P', 'fields': [{'name': 'pad', 'type': S('int')}, {'name': 'f', 'type': tspec}],
                        'opts': {'in_format': ['tuple']}}), [0, v]
    if ctx_name in ('dataclass-constructor', 'dataclass-replace'):
        # the value reaches the field through Cls(pad=.., f=v, tail=..) / inst.__replace__(f=v, tail=..): other fields, of other
        # types, are given in the same call
        return ('cls', {'name': 'C02K', 'fields': [{'name': 'pad', 'type': S('int')}, {'name': 'f', 'type': tspec}, {'name': 'tail', 'type': S('str')}],
                        'opts': {}}), {'pad': 0, 'f': v, 'tail': 's'}
    raise ValueError(ctx_name)


def cases(shard: int, nshards: int) -> t.Iterator[t.Any]:
    i = 0
    for (vi, ti, ci) in itertools.product(range(len(VALUES)), range(len(TARGETS)), range(len(CONTEXTS))):
        if i % nshards == shard:
            yield [vi, ti, ci]
        i += 1


def render(case: t.Any) -> t.Any:
    (vi, ti, ci) = case
    return {'value': short(VALUES[vi][1], 60), 'kind': VALUES[vi][0], 'target': TARGETS[ti][0], 'context': CONTEXTS[ci]}


def stock_handlers() -> t.Dict[type, t.Any]:
    """`custom={int: ..., float: ..., str: ...}` holding the library's own converters for exactly those types: nothing is
    allowed to change under them, and in particular the entry for int serves int targets only, not bool ones."""
    from pane.convert import make_converter
    return {int: make_converter(int), float: make_converter(float), str: make_converter(str)}


def check(case: t.Any, ctx: Ctx, custom: t.Any = None) -> None:
    import pane
    (vi, ti, ci) = case
    (vkind, v) = VALUES[vi]
    (tname, tspec, admitted) = TARGETS[ti]
    cname = CONTEXTS[ci]
    emb = embed(cname, tspec, v, tname)
    if emb is None:
        ctx.label('cell:not-formable')
        return
    (wspec, wv) = emb
    nd = tg.node(wspec)
    cross = vkind not in admitted
    numeric_bool = vkind == 'bool' and tname in ('int', 'float', 'complex', 'Decimal', 'Fraction', 'IntE', 'FloatE', 'IE(IntEnum)', 'MyInt', 'MyFloat',
                                                 "Literal['5', 5, True]", 'ValueOrList[int]', 'ndarray[int64]',
                                                 'TypeVar(bound=Union[int, float])', 'TypeVar(bound=int)', 'TypeVar(int, str)')
    ctx.label(f"{'cross' if cross else 'same'}-kind:{cname}")
    ctx.nontrivial(cross and cname != 'top')
    if cname == 'dataclass-constructor':
        (k, got) = outcome(lambda: nd.pytype()(**wv))
    elif cname == 'dataclass-replace':
        base = nd.pytype().make_unchecked(pad=5, f=None, tail='')
        (k, got) = outcome(lambda: base.__replace__(f=v, pad=0, tail='s'))
    else:
        (k, got) = outcome(lambda: pane.from_data(wv, nd.pytype(), custom=custom))
    cell = f"{vkind} value {short(v, 40)} -> {tname} [{cname}]" + (' under custom={int:, float:, str: stock converters}' if custom is not None else '')
    if k == 'exc':
        ctx.fail('strict-kinds', f"exception:{type(got).__name__}", f"{cell}: raised {type(got).__name__}: {str(got)[:200]}")
        return
    if numeric_bool:
        ctx.exclude('bool given to a numeric target (unspecified)')
        return
    if cross and isinstance(tg.node(tspec), (tg.Lit, tg.Enum)) and isinstance(tg.node(tspec).ref(v), tg.Unspec):
        ctx.exclude('value == a literal / member value of another type (unspecified)')
        return
    if cross:
        if k == 'ok':
            ctx.fail('strict-kinds', f"{vkind}->{tname}", f"{cell}: accepted as {short(got, 80)}; a {vkind} must never be taken for {tname}")
        return
    # inside the table: the reference decides
    r = nd.ref(wv)
    if isinstance(r, tg.Unspec):
        ctx.exclude(f"unspecified: {r.why}")
        return
    if isinstance(r, tg.Acc):
        if k != 'ok':
            ctx.fail('table-accepts', f"{vkind}->{tname}", f"{cell}: refused although this is an admitted kind and the value is a member: {str(got)[:200]}")
        else:
            d = same(got, r.image)
            if d is not None:
                ctx.fail('table-accepts', f"{vkind}->{tname}", f"{cell}: returned {short(got, 80)}: {d}")
    elif k == 'ok':
        ctx.fail('table-rejects', f"{vkind}->{tname}", f"{cell}: accepted as {short(got, 80)} but the value is not a member ({r.why})")


HANDLER_CONTEXTS = [CONTEXTS.index(c) for c in ('top', 'list-element', 'mapping-value', 'union-never', 'dataclass-by-name')]


def handler_cases(shard: int, nshards: int) -> t.Iterator[t.Any]:
    i = 0
    for (vi, ti, ci) in itertools.product(range(len(VALUES)), range(len(TARGETS)), HANDLER_CONTEXTS):
        if i % nshards == shard:
            yield [vi, ti, ci]
        i += 1


def check_handlers(case: t.Any, ctx: Ctx) -> None:
    check(case, ctx, custom=stock_handlers())


# ---- contexts composed two or three deep (Hypothesis) ------------------------------------------------------

COMPOSABLE = [c for c in CONTEXTS if c not in ('top', 'struct-field', 'dataclass-constructor', 'dataclass-replace')]


def deep_cases():
    from hypothesis import strategies as st
    return st.tuples(st.integers(0, len(VALUES) - 1), st.integers(0, len(TARGETS) - 1),
                     st.lists(st.sampled_from(COMPOSABLE), min_size=2, max_size=3)).map(list)


def render_deep(case: t.Any) -> t.Any:
    (vi, ti, ctxs) = case
    return {'value': short(VALUES[vi][1], 60), 'kind': VALUES[vi][0], 'target': TARGETS[ti][0], 'contexts (inner to outer)': ctxs}


def check_deep(case: t.Any, ctx: Ctx) -> None:
    import pane
    (vi, ti, ctxs) = case
    (vkind, v) = VALUES[vi]
    (tname, tspec, admitted) = TARGETS[ti]
    if tname in LITERAL_TARGETS:
        ctx.label('cell:not-formable')
        return
    (wspec, wv) = (tspec, v)
    for c in ctxs:
        emb = embed(c, wspec, wv, 'composed')
        if emb is None:
            ctx.label('cell:not-formable')
            return
        (wspec, wv) = emb
    nd = tg.node(wspec)
    cross = vkind not in admitted
    ctx.label(f"deep:{'cross' if cross else 'same'}-kind:{len(ctxs)}")
    ctx.nontrivial(cross)
    r = nd.ref(wv)
    if isinstance(r, tg.Unspec):
        ctx.exclude(f"unspecified: {r.why}")
        return
    (k, got) = outcome(lambda: pane.from_data(wv, nd.pytype()))
    cell = f"{vkind} value {short(v, 40)} -> {tname} inside {' inside '.join(ctxs)}"
    if k == 'exc':
        ctx.fail('strict-kinds', f"exception:{type(got).__name__}", f"{cell}: raised {type(got).__name__}: {str(got)[:200]}")
    elif cross and k == 'ok':
        ctx.fail('strict-kinds', f"{vkind}->{tname}", f"{cell}: accepted as {short(got, 80)}; a {vkind} must never be taken for {tname}")
    elif not cross and isinstance(r, tg.Acc) and k != 'ok':
        ctx.fail('table-accepts', f"{vkind}->{tname}", f"{cell}: refused although the value is a member: {str(got)[:200]}")
    elif not cross and isinstance(r, tg.Rej) and k == 'ok':
        ctx.fail('table-rejects', f"{vkind}->{tname}", f"{cell}: accepted as {short(got, 80)} but the value is not a member ({r.why})")


# ---- elements that are equal across kinds ---------------------------------------------------------------------------------------
#
# 1 == 1.0 == (1+0j) == True: in a set target (where equal elements would collapse in the result) each element is still judged by
# its own kind - a float is not taken for an int because an equal int stands before it.

SETDUP_TARGETS = {'Set[int]': t.Set[int], 'FrozenSet[int]': t.FrozenSet[int], 'AbstractSet[int]': t.AbstractSet[int], 'Set[float]': t.Set[float],
                  'Set[bool]': t.Set[bool], 'Set[str]': t.Set[str], 'List[int]': t.List[int], 'Tuple[int, ...]': t.Tuple[int, ...], 'Dict[str, Set[int]]': t.Dict[str, t.Set[int]]}
SETDUP_VALUES = [[1, 1.0], [1.0, 1], [3, 2, 3.0], [2, (2 + 0j)], [0.5, (0.5 + 0j)], [True, 1.0, 1], [0, False], ['a', b'a'], [1, 1], [1, 2]]


def setdup_cases(shard: int, nshards: int) -> t.Iterator[t.Any]:
    i = 0
    for tn in SETDUP_TARGETS:
        for vi in range(len(SETDUP_VALUES)):
            if i % nshards == shard:
                yield [tn, vi]
            i += 1


def check_setdup(case: t.Any, ctx: Ctx) -> None:
    import pane
    (tn, vi) = case
    T = SETDUP_TARGETS[tn]
    v = SETDUP_VALUES[vi]
    elem = {'int': int, 'float': float, 'bool': bool, 'str': str}[tn.split('[')[-1].split(']')[0].split(',')[0].strip()]
    admitted = {int: (int,), float: (int, float), bool: (bool,), str: (str,)}[elem]
    if any(type(x) is bool for x in v) and elem in (int, float):
        ctx.exclude('bool given to a numeric target (unspecified)')
        return
    want_ok = all(type(x) in admitted for x in v)
    data = {'k': v} if tn.startswith('Dict') else v
    ctx.label(f"target:{tn}", 'all-admitted' if want_ok else 'one-not-admitted')
    ctx.nontrivial(not want_ok)
    ctx.evaluated()
    (k, r) = outcome(lambda: pane.from_data(data, T))
    if want_ok and k != 'ok':
        ctx.fail('table-accepts', f"equal-across-kinds:{tn}", f"from_data({data!r}, {tn}) refused although every element is of an admitted kind: {str(r)[:150]}")
    elif not want_ok and k == 'ok':
        ctx.fail('strict-kinds', f"equal-across-kinds:{tn}", f"from_data({data!r}, {tn}) returned {r!r}: an element of another kind was taken because it equals one of the right kind")
    elif not want_ok and k != 'ce':
        ctx.fail('strict-kinds', f"equal-across-kinds:{type(r).__name__}", f"from_data({data!r}, {tn}) raised {type(r).__name__}: {str(r)[:150]}")


# ---- an argument of another kind that *equals* the field's default --------------------------------------------------------------
#
# 0 == 0.0 == False == 0j and 1 == 1.0 == True == (1+0j): a value that compares equal to the default is still a value of its own
# kind, and is converted (refused, or widened) like any other - in the constructor, in __replace__ and from data.

DEFEQ = [  # (field type name, default, [(argument, expected: 'refuse' | exact result)])
    ('int', 0, [(0.0, 'refuse'), (0j, 'refuse'), (-0.0, 'refuse'), (0, 0)]),
    ('int', 1, [(1.0, 'refuse'), (1 + 0j, 'refuse'), (1, 1)]),
    ('bool', False, [(0, 'refuse'), (0.0, 'refuse'), (0j, 'refuse'), (False, False)]),
    ('bool', True, [(1, 'refuse'), (1.0, 'refuse'), (True, True)]),
    ('float', 1.0, [(1 + 0j, 'refuse'), (1, 1.0), (1.0, 1.0)]),
    ('float', 0.0, [(0j, 'refuse'), (0, 0.0)]),
    ('complex', 1j, [(1j, 1j)]),
    ('str', '', [(b'', 'refuse'), ('', '')]),
    ('none', None, [(None, None)]),
]


def defeq_cases(shard: int, nshards: int) -> t.Iterator[t.Any]:
    i = 0
    for (di, (_, _, args)) in enumerate(DEFEQ):
        for ai in range(len(args)):
            for path in ('constructor', 'replace', 'from_data', 'positional'):
                if i % nshards == shard:
                    yield [di, ai, path]
                i += 1


_DEFEQ_CLS: t.Dict[int, t.Any] = {}


def check_defeq(case: t.Any, ctx: Ctx) -> None:
    import pane
    (di, ai, path) = case
    (tname, default, args) = DEFEQ[di]
    (arg, want) = args[ai]
    if di not in _DEFEQ_CLS:
        T = {'int': int, 'bool': bool, 'float': float, 'complex': complex, 'str': str, 'none': type(None)}[tname]
        _DEFEQ_CLS[di] = type('Config', (pane.PaneBase,), {'__annotations__': {'name': str, 'f': T}, 'name': 'n', 'f': default}, in_format=('struct', 'tuple'))
    C = _DEFEQ_CLS[di]
    ctx.label(f"default-equal:{path}")
    ctx.nontrivial(want == 'refuse' or type(arg) is not type(want))
    ctx.evaluated()
    (k, got) = outcome({'constructor': lambda: C(f=arg), 'replace': lambda: C().__replace__(f=arg), 'from_data': lambda: C.from_data({'f': arg}),
                        'positional': lambda: C.from_data(['n', arg])}[path])
    cell = f"class Config(name: str = 'n', f: {tname} = {default!r}); {path} with f = {arg!r} ({type(arg).__name__})"
    if k == 'exc':
        ctx.fail('strict-kinds', f"default-equal:{type(got).__name__}", f"{cell}: raised {type(got).__name__}: {str(got)[:150]}")
    elif want == 'refuse':
        if k == 'ok':
            ctx.fail('strict-kinds', f"default-equal:{type(arg).__name__}->{tname}", f"{cell}: accepted as {got!r}; it equals the default but is a {type(arg).__name__}")
    elif k != 'ok' or type(got.f) is not type(want) or got.f != want:
        ctx.fail('table-accepts', f"default-equal:{tname}", f"{cell}: gave {short(got, 100)}; wanted f = {want!r} ({type(want).__name__})")


def suites(tier: str) -> t.List[Suite]:
    big = tier == 'thorough'
    return [
        Suite('matrix', check, cases=cases, exhaustive=True, budget_s=600, render=render),
        Suite('under-stock-handlers', check_handlers, cases=handler_cases, exhaustive=True, budget_s=300, render=render),
        Suite('default-equal', check_defeq, cases=defeq_cases, exhaustive=True, budget_s=30,
              render=lambda c: {'field': DEFEQ[c[0]][0], 'default': repr(DEFEQ[c[0]][1]), 'argument': repr(DEFEQ[c[0]][2][c[1]][0]), 'path': c[2]}),
        Suite('equal-across-kinds', check_setdup, cases=setdup_cases, exhaustive=True, budget_s=30, render=lambda c: {'target': c[0], 'value': repr(SETDUP_VALUES[c[1]])}),
        Suite('deep', check_deep, strategy=deep_cases, examples=20000 if big else 1500, budget_s=300 if big else 20, render=render_deep),
    ]
