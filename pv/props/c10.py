"""
C10  Results are independent of call history (memoisation is transparent).

A RuleBasedStateMachine generates histories of
    build a fresh type object / convert with a live type / convert, modify the result, convert the same data again / build-use-drop a temporary
    type literal / drop a live type / gc.collect() / convert with call-level handlers in
    each of the three forms / compare the memoised converter with one built past the
    cache / run a batch of conversions from 4 threads / subscript a generic many times
and every outcome is compared with the reference interpreter's verdict for
(spec, value) - which by construction depends on nothing else.  The history is
plain data: a replay re-executes it without Hypothesis.  A second machine
drives pane.util.KeyCache directly against "always returns f(args), never holds
more than maxsize entries".
"""

from __future__ import annotations

import gc
import sys
import threading
import typing as t

from hypothesis import strategies as st
from hypothesis.stateful import RuleBasedStateMachine, rule, precondition, initialize

from ..core import Suite, Ctx, HarnessError, triage_exception
from .. import tg, cg, gen
from ..same import same
from ..codec import short
from ..oracles import outcome, judge_conv

ID = 'C10'
RULE = ("Hypothesis stateful: histories of up to 50 (thorough: 120) operations over {build, convert, convert-modify-result-convert-again, temp-literal, drop, gc, handlers x 3 forms, "
        "memo-vs-fresh, 4-thread batch, mass subscription}; types are short-lived objects (tuple/struct literals, PEP 585 and typing aliases, "
        "Annotated aliases, dynamically created dataclasses) so that ids can be recycled. Every conversion outcome is compared with the "
        "reference verdict for (spec, value). Non-trivial = the history drops a type (or uses a temporary literal) and later builds another "
        "type and converts with it - the pattern under which a recycled id would answer with a stale converter; distinct by history. "
        "The number of measured id-reuse events is reported separately (0 is expected once the cache keeps its keys alive).")
ASSUMPTIONS = [
    "the harness does not own CPython's thread schedule: the threaded rule is a stress test (switch interval 1 microsecond), it can show a race, never its absence",
    "id reuse is allocator behaviour; the machine measures reuse events and reports their count",
]

SPEC_POOL: t.Optional[st.SearchStrategy[t.Any]] = None
_MUL: t.Dict[str, t.Any] = {}
STATS = {'reuse_events': 0, 'builds': 0, 'drops': 0, 'converts': 0, 'thread_batches': 0}


def worker_extra() -> t.Dict[str, t.Any]:
    return dict(STATS)


def merge_extra(extras: t.List[t.Dict[str, t.Any]]) -> t.Dict[str, t.Any]:
    tot: t.Dict[str, int] = {}
    for e in extras:
        for (k, v) in e.items():
            tot[k] = tot.get(k, 0) + v
    return {'history_stats': tot}


# short-lived, recyclable type shapes: small objects of a few sizes
S = lambda n: ('s', n)  # noqa: E731
SCAL = [S('int'), S('str'), S('float'), S('bool'), S('bytes'), S('none')]


def small_specs() -> st.SearchStrategy[t.Any]:
    sc = st.sampled_from(SCAL)
    return st.one_of(
        st.lists(sc, min_size=2, max_size=3).map(lambda es: ('tup', 'lit', tuple(es))),
        st.lists(sc, min_size=2, max_size=3).map(lambda es: ('tup', 'lit', tuple(es))),
        st.lists(st.tuples(st.sampled_from(['x', 'y', 'k']), sc), min_size=1, max_size=2, unique_by=lambda kv: kv[0]).map(lambda kv: ('struct', tuple(kv))),
        st.tuples(st.just('seq'), st.sampled_from(['list', 'set', 'tuplevar', 'frozenset', 'deque', 'List', 'Sequence']), sc),
        st.tuples(st.just('map'), st.sampled_from(['dict', 'Dict', 'defaultdict']), st.sampled_from([S('str'), S('int')]), sc),
        st.tuples(st.just('tup'), st.sampled_from(['tuple', 'Tuple']), st.lists(sc, min_size=1, max_size=3).map(tuple)),
        st.tuples(st.just('seq'), st.sampled_from(['list', 'set', 'tuplevar', 'List']),
                  st.lists(st.sampled_from([S('int'), S('float'), S('str'), S('bool')]), min_size=2, max_size=2, unique_by=repr).map(lambda ms: ('union', 'Union', tuple(ms)))),
        st.tuples(st.just('map'), st.sampled_from(['dict', 'Dict']), st.just(S('str')),
                  st.lists(st.sampled_from([S('int'), S('float'), S('complex')]), min_size=2, max_size=2, unique_by=repr).map(lambda ms: ('union', 'Union', tuple(ms)))),
        st.tuples(st.just('union'), st.just('Union'), st.lists(sc, min_size=2, max_size=3, unique_by=repr).map(tuple)),
        st.lists(sc, min_size=2, max_size=2, unique_by=repr).flatmap(lambda ab: st.sampled_from([
            ('union', 'Union', (('seq', 'List', ab[0]), ('seq', 'List', ab[1]))),
            ('union', 'Union', (('map', 'Dict', S('str'), ab[0]), ('map', 'Dict', S('str'), ab[1]))),
            ('union', 'Union', (('seq', 'TupleVar', ab[0]), ('seq', 'TupleVar', ab[1]))),
        ])),
        st.tuples(st.just('ann'), st.just(S('int')), st.lists(tg.COND_NUM, min_size=1, max_size=1).map(tuple)),
        cg.class_specs(sc, max_fields=2, naming=False, hooks=False),
        # classes with renaming options: their table of input names is built per converter, and a class gets one converter per set of handlers
        cg.class_specs(sc, max_fields=3, naming=True, hooks=False),
        # fields whose default is the product of a factory (a list / dict / set made per conversion): a converter that keeps one
        # product makes the next answer depend on what the caller did with the previous one
        cg.class_specs(st.one_of(sc, st.tuples(st.just('seq'), st.sampled_from(['List', 'Set', 'Deque']), sc),
                                 st.tuples(st.just('map'), st.just('Dict'), st.just(S('str')), sc)), max_fields=3, naming=False, hooks=False),
    )


def permuted(spec: t.Any) -> t.Any:
    if isinstance(spec, tuple) and spec and spec[0] == 'union':
        return ('union', spec[1], tuple(permuted(m) for m in reversed(spec[2])))
    if isinstance(spec, tuple):
        return tuple(permuted(x) for x in spec)
    return spec


def scribble(x: t.Any, depth: int = 0) -> None:
    """Modify every list / dict / set / deque reachable from a conversion result (what a caller filling in a record does)."""
    import collections
    if depth > 6:
        return
    if isinstance(x, (list, collections.deque)):
        for y in list(x):
            scribble(y, depth + 1)
        x.append('<scribble>')
    elif isinstance(x, dict):
        for y in list(x.values()):
            scribble(y, depth + 1)
        x['<scribble>'] = '<scribble>'
    elif isinstance(x, set):
        x.add('<scribble>')
    elif isinstance(x, tuple):
        for y in x:
            scribble(y, depth + 1)
    elif hasattr(type(x), '__pane_info__'):
        for f in type(x).__pane_info__.fields:
            if hasattr(x, f.name):
                scribble(getattr(x, f.name), depth + 1)


class Executor:
    """Applies operations (plain data) and records oracle failures into ctx.  Deterministic: used by the machine and by replays."""

    def __init__(self, ctx: Ctx):
        self.ctx = ctx
        self.live: t.List[tg.Node] = []
        self.dead_ids: t.Set[int] = set()
        self.dropped = False
        self.built_after_drop = False
        self.ops: t.List[t.Any] = []

    # -- helpers --
    def _build(self, spec: t.Any) -> tg.Node:
        tg.NO_KEEP[0] = True
        cg.FRESH[0] = True
        try:
            nd = tg.node(spec)
            nd.pytype()
        finally:
            tg.NO_KEEP[0] = False
            cg.FRESH[0] = False
        STATS['builds'] += 1
        if id(nd._ty) in self.dead_ids:
            STATS['reuse_events'] += 1
            self.ctx.label('id-reuse-event')
        if self.dropped:
            self.built_after_drop = True
        return nd

    def _drop_node(self, nd: tg.Node) -> None:
        for n in nd.walk():
            if n._ty is not None:
                self.dead_ids.add(id(n._ty))
        self.dropped = True
        STATS['drops'] += 1

    def _judge(self, nd: tg.Node, v: t.Any, out: t.Tuple[str, t.Any], what: str) -> None:
        r = nd.ref(v)
        self.ctx.evaluated()
        STATS['converts'] += 1
        if self.built_after_drop:
            self.ctx.nontrivial(True)
        res = judge_conv(nd, r, out, v, what)
        if res is not None:
            self.ctx.fail('history-independent', f"{what.split('[')[0]}:{res[0].split(':')[0]}", res[1] + f"  [after {len(self.ops)} operations]")

    def apply(self, op: t.Any) -> None:
        try:
            self._apply(op)
        except RecursionError:
            raise
        except Exception as e:
            k = triage_exception(e)
            if k is None:
                raise
            import traceback
            self.ctx.fail('unexpected-exception', k, f"operation {short(op, 150)} (number {len(self.ops)}): " + traceback.format_exc()[-600:])

    def _apply(self, op: t.Any) -> None:
        import pane
        from pane.convert import make_converter, ConverterHandlers
        self.ops.append(op)
        kind = op[0]
        if kind == 'build':
            self.live.append(self._build(op[1]))
        elif kind == 'convert' and self.live:
            nd = self.live[op[1] % len(self.live)]
            v = op[2]
            self._judge(nd, v, outcome(lambda: pane.from_data(v, nd._ty)), 'from_data')
        elif kind == 'reconvert' and self.live:
            # convert, let the caller do what callers do with a result (fill its containers), convert the same data again:
            # the second answer is the reference's answer for (T, v) still - results of separate calls share no mutable state
            from ..codec import clone
            nd = self.live[op[1] % len(self.live)]
            for what in ('from_data', 'from_data[after the previous result was modified]', 'convert[after the previous result was modified]'):
                v = clone(op[2])
                f = pane.convert if what.startswith('convert') else pane.from_data
                out = outcome(lambda: f(v, nd._ty))
                self._judge(nd, v, out, what)
                if out[0] == 'ok':
                    scribble(out[1])
        elif kind == 'roundtrip' and self.live:
            nd = self.live[op[1] % len(self.live)]
            v = op[2]
            from .c05 import roundtrip_problem, _Skip
            if any(isinstance(n, cg.ClsNode) and not n.output_readable() for n in nd.walk()):
                return
            try:
                res = roundtrip_problem(nd, v)
            except _Skip:
                return
            self.ctx.evaluated(3)
            if self.built_after_drop:
                self.ctx.nontrivial(True)
            if res is not None and 'tuple-out-with-kw-only' not in res[1]:
                from .c05 import d9_config, vol_in_union
                if not d9_config(nd):
                    self.ctx.fail('history-independent', f"roundtrip:{res[0]}", res[1] + f"  [after {len(self.ops)} operations]")
        elif kind == 'temp':
            nd = self._build(op[1])
            v = op[2]
            self._judge(nd, v, outcome(lambda: pane.convert(v, nd._ty)), 'convert[temporary type]')
            self._drop_node(nd)
            del nd
        elif kind == 'drop' and self.live:
            nd = self.live.pop(op[1] % len(self.live))
            self._drop_node(nd)
            del nd
        elif kind == 'gc':
            gc.collect()
        elif kind == 'handlers' and self.live:
            nd = self.live[op[1] % len(self.live)]
            v = op[2]
            form = op[3]
            if form == 'effective':
                # handlers with an effect, interleaved with handler-free calls on one (fresh) type object:
                # the answer must follow the handlers of the call, whatever was asked before
                from ..props.c17 import _handlers
                mul = _MUL or _MUL.update(_handlers()) or _MUL
                lit = tuple([int, str])
                seq = [(None, (1, 'a')), ('double', (2, 'a')), (None, (1, 'a')), ('triple', (3, 'a')), ('double', (2, 'a'))]
                if op[1] % 2:
                    seq = seq[1:]
                if op[1] % 3 == 2:
                    # one registry dict, edited between calls (the mapping form is consulted at conversion time)
                    registry: t.Dict[t.Any, t.Any] = {}
                    steps = [({}, (1, 'a')), (mul['double'], (2, 'a')), (mul['triple'], (3, 'a')), ({}, (1, 'a')), (mul['double'], (2, 'a'))]
                    for (content, want) in steps:
                        registry.clear()
                        registry.update(content)
                        self.ctx.evaluated()
                        o = outcome(lambda: pane.from_data([1, 'a'], lit, custom=registry))
                        o_l = outcome(lambda: pane.from_data({'k': [1]}, t.Dict[str, t.List[int]], custom=registry))
                        want_l = {'k': [want[0]]}
                        if o != ('ok', want) or o_l != ('ok', want_l):
                            self.ctx.fail('handlers-are-part-of-the-question', 'registry-edited-between-calls',
                                          f"one dict passed as custom= and edited between calls: with content {short(content, 60)} from_data([1, 'a'], (int, str)) gave "
                                          f"{o[0]} {short(o[1], 40)} (expected {want!r}), Dict[str, List[int]] gave {o_l[0]} {short(o_l[1], 40)} (expected {want_l!r})")
                            break
                    return
                for (hname, want) in seq:
                    self.ctx.evaluated()
                    o = outcome(lambda: pane.from_data([1, 'a'], lit, custom=mul[hname] if hname else None))
                    if o != ('ok', want):
                        self.ctx.fail('handlers-are-part-of-the-question', f"custom={hname}", f"from_data([1, 'a'], (int, str), custom={hname}) gave {o[0]} {short(o[1], 60)}, "
                                      f"expected {want!r}; calls so far on this type: {[h for (h, _) in seq]}")
                        break
                return
            # a handler that declines everything: the outcome must be exactly the handler-free outcome,
            # and the dict form makes a new closure (= a new cache key) per call
            def declining(ty: t.Any, args: t.Any, *, handlers: t.Any) -> t.Any:
                return NotImplemented
            custom: t.Any = {'callable': declining, 'sequence': [declining, declining], 'mapping': {Executor: None}}[form]
            self._judge(nd, v, outcome(lambda: pane.from_data(v, nd._ty, custom=custom)), f'from_data[custom={form}]')
        elif kind == 'memo' and self.live:
            nd = self.live[op[1] % len(self.live)]
            self.ctx.evaluated()
            (k1, memo) = outcome(lambda: make_converter(nd._ty))
            (k2, fresh) = outcome(lambda: make_converter.inner_f(nd._ty, ConverterHandlers()))
            if k1 != k2:
                self.ctx.fail('memo-equals-fresh', 'build-outcome', f"{nd.render()[:200]}: memoised lookup {k1}, fresh build {k2}")
            elif k1 == 'ok':
                (e1, e2) = (outcome(lambda: memo.expected()), outcome(lambda: fresh.expected()))
                if e1 != e2:
                    self.ctx.fail('memo-equals-fresh', 'expected', f"{nd.render()[:200]}: memoised converter expects {e1[1]!r}, a freshly built one {e2[1]!r}  [after {len(self.ops)} operations]")
                for v in op[2]:
                    (o1, o2) = (outcome(lambda: memo.convert(v)), outcome(lambda: fresh.convert(v)))
                    if o1[0] != o2[0] or (o1[0] == 'ok' and same(o1[1], o2[1]) is not None):
                        self.ctx.fail('memo-equals-fresh', 'result', f"{nd.render()[:200]} on {short(v, 80)}: memoised {o1[0]} {short(o1[1], 80)}, fresh {o2[0]} {short(o2[1], 80)}")
                        break
        elif kind == 'threads' and self.live:
            jobs = [(self.live[i % len(self.live)], v) for (i, v) in op[1]]
            results: t.List[t.Any] = [None] * len(jobs)
            barrier = threading.Barrier(4)
            old = sys.getswitchinterval()

            def work(tid: int) -> None:
                try:
                    barrier.wait(timeout=5)
                except threading.BrokenBarrierError:
                    pass
                for j in range(tid, len(jobs), 4):
                    (nd_, v_) = jobs[j]
                    results[j] = outcome(lambda: pane.from_data(v_, nd_._ty))
            sys.setswitchinterval(1e-6)
            try:
                ths = [threading.Thread(target=work, args=(i,)) for i in range(4)]
                for th in ths:
                    th.start()
                for th in ths:
                    th.join(30)
            finally:
                sys.setswitchinterval(old)
            STATS['thread_batches'] += 1
            self.ctx.label('threaded-batch')
            for ((nd_, v_), out) in zip(jobs, results):
                if out is not None:
                    self._judge(nd_, v_, out, 'from_data[4 threads]')
        elif kind == 'subscript':
            self._subscript(op[1])

    _GEN: t.List[t.Any] = []
    _REGISTERED: t.List[t.Any] = []

    def _register_after_use(self) -> None:
        """Once per process: a type is converted with the built-in machinery, then a global handler for it is registered.  A
        converter freshly built for the type would now come from the handler (registered handlers are consulted before the structural
        built-ins); the memoised lookup must behave the same."""
        import pane
        from pane.converters import Converter

        class RegList(list):      # type: ignore
            pass

        Holder = type('RegHolder', (pane.PaneBase,), {'__annotations__': {'items': RegList}})

        class Conv(Converter):      # type: ignore
            def expected(self, plural: bool = False) -> str:
                return 'registered list'

            def try_convert(self, val: t.Any) -> t.Any:
                return RegList(['from-the-registered-handler'])

            def collect_errors(self, val: t.Any) -> t.Any:
                return None

            def into_data(self, val: t.Any) -> t.Any:
                return list(val)
        conv = Conv()

        def handler(ty: t.Any, args: t.Any, *, handlers: t.Any) -> t.Any:
            return conv if ty is RegList else NotImplemented
        first = (outcome(lambda: pane.from_data([1], RegList)), outcome(lambda: pane.from_data({'items': [1]}, Holder)),
                 outcome(lambda: Holder(items=[1])), outcome(lambda: Holder(items=[2]).__replace__(items=[1])))
        from pane.convert import register_converter_handler
        register_converter_handler(handler)
        self.ctx.evaluated()
        after = (outcome(lambda: pane.from_data([1], RegList)), outcome(lambda: pane.from_data({'items': [1]}, Holder)),
                 outcome(lambda: Holder(items=[1])), outcome(lambda: Holder(items=[2]).__replace__(items=[1])))
        got = [list(after[0][1]) if after[0][0] == 'ok' else after[0]] + [list(a[1].items) if a[0] == 'ok' else a for a in after[1:]]
        if got != [['from-the-registered-handler']] * 4:
            self.ctx.fail('history-independent', 'handler-registered-after-first-use',
                          f"class RegList(list) converted once (-> {short(first[0][1], 40)}), then register_converter_handler(handler for RegList): "
                          f"from_data([1], RegList), a dataclass field of that type through from_data, the constructor and __replace__ now give {short(got, 160)}; a converter built afresh "
                          f"comes from the handler")
        self.ctx.label('register-after-use')

    def _subscript(self, n: int) -> None:
        import pane
        if not Executor._GEN:
            T = t.TypeVar('T')
            import types as _types
            G = _types.new_class('GenC10', (pane.PaneBase, t.Generic[T]), {}, lambda ns: ns.update({'__annotations__': {'x': T}}))
            Executor._GEN.extend([G, T])
        G = Executor._GEN[0]
        # an instance and a holder type made *before* the subscriptions: the parametrisation they refer to must stay the one
        # G[int] denotes afterwards (a value of G[int] is a value of G[int], however many other parametrisations came in between)
        import types as _types
        before = G[int](x=1)
        Holder = _types.new_class('HoldC10', (pane.PaneBase,), {}, lambda ns: ns.update({'__annotations__': {'item': G[int]}}))
        for i in range(n):
            G[t.Literal[i]]        # n distinct subscriptions roll the LRU cache of generic subclasses
        self.ctx.evaluated()
        (k0, r0) = outcome(lambda: pane.from_data({'item': G[int](x=2)}, Holder))
        (k0b, r0b) = outcome(lambda: pane.from_data({'item': before}, Holder))
        if k0 != 'ok' or k0b != 'ok' or not isinstance(before, G[int]):
            self.ctx.fail('history-independent', 'generic-subscription-identity',
                          f"after {n} other subscriptions, a field of type G[int] (class made earlier) given a G[int] instance: new instance {k0} {short(r0, 80)}, "
                          f"instance made earlier {k0b} {short(r0b, 80)}; isinstance(earlier, G[int]) = {isinstance(before, G[int])}")
            return
        # parameters of every documented shape can be used, and give the same class every time
        for (nm, mk) in (('Callable[[int], str]', lambda: t.Callable[[int], str]), ("Literal['ab', 1]", lambda: t.Literal['ab', 1]),
                         ('Dict[str, List[int]]', lambda: t.Dict[str, t.List[int]]), ('Tuple[()]', lambda: t.Tuple[()])):
            (k1, c1) = outcome(lambda: G[mk()])
            (k2, c2) = outcome(lambda: G[mk()])
            if k1 != 'ok' or k2 != 'ok' or c1 is not c2:
                self.ctx.fail('history-independent', 'generic-subscription-parameter-kinds', f"G[{nm}] twice: {k1} {short(c1, 80)}, {k2} {short(c2, 80)}; same class: {c1 is c2}")
                return
        # the order of union members is part of the parameter: G[Union[int, float]] and G[Union[float, int]] are different types
        for (first, second) in (((int, float), (float, int)), ((float, int), (int, float))):
            if n % 2 == (0 if first[0] is int else 1):
                continue
            A = G[t.Union[first]]     # type: ignore
            B = G[t.Union[second]]    # type: ignore
            from pane.types import ValueOrList
            if len(Executor._GEN) < 3:
                import pane.annotations as _A
                T2 = t.TypeVar('T2')
                cond = _A.len_range(min=0, max=5)
                G2 = _types.new_class('GenNestC10', (pane.PaneBase, t.Generic[T2]), {}, lambda ns: ns.update(
                    {'__annotations__': {'nested': t.Optional[t.List[T2]], 'ann': t.Annotated[t.List[T2], cond], 'vol': ValueOrList[T2]}}))
                Executor._GEN.append(G2)
            G2 = Executor._GEN[2]
            # ... also where the type variable sits below another union or an annotation (typing caches subscriptions of those by
            # *equality* of the arguments, and unions compare equal whatever the order of their members)
            (kq, pairs) = outcome(lambda: ((G2[t.Union[first]], first), (G2[t.Union[second]], second)))     # type: ignore
            if kq != 'ok':
                self.ctx.fail('history-independent', 'generic-subscription-union-order-nested', f"G2[Union[...]] in both member orders, one after the other: {type(pairs).__name__}: {str(pairs)[:200]}")
                return
            for (Ty, order) in pairs:
                (k, r) = outcome(lambda: pane.from_data({'nested': [1], 'ann': [1], 'vol': [1]}, Ty))
                want = order[0](1)
                if k != 'ok' or type(r.nested[0]) is not type(want) or type(r.ann[0]) is not type(want) or type(list(r.vol)[0]) is not type(want):
                    self.ctx.fail('history-independent', 'generic-subscription-union-order-nested',
                                  f"class G2(Generic[T]) with fields nested: Optional[List[T]], ann: Annotated[List[T], len_range(0, 5)]; "
                                  f"G2[Union[{first[0].__name__}, {first[1].__name__}]] subscripted first, then G2[Union[{second[0].__name__}, {second[1].__name__}]]: "
                                  f"from_data({{'nested': [1], 'ann': [1]}}, G2[Union[{order[0].__name__}, {order[1].__name__}]]) gave {k} {short(r, 80)!s}, "
                                  f"the left-most member {order[0].__name__} gives {want!r} in both fields")
                    return
            # ... and in the types pane derives itself: the union of a constrained type variable's constraints, the list side of ValueOrList
            import warnings
            from pane.types import ValueOrList
            for (order, other) in ((first, second), (second, first)):
                # (somebody, somewhere, wrote the other order first.  What the *user* writes here is spelled with builtin aliases,
                # which are not cached: a typing alias would already reach pane in the other order, which is not pane's doing)
                t.List[t.Union[other]]      # type: ignore
                t.Union[list[t.Union[other]], str]      # type: ignore
                TV = t.TypeVar('TV', list[t.Union[order]], str)     # type: ignore
                with warnings.catch_warnings():
                    warnings.simplefilter('ignore')
                    (k, r) = outcome(lambda: pane.from_data([1], TV))
                    VT = ValueOrList[t.Union[order]]      # type: ignore
                    if t.get_args(t.get_args(VT)[0]) != tuple(order):
                        (k2, r2) = ('skip', None)      # typing itself handed us the alias of the other order (its cache, not pane's doing)
                    else:
                        (k2, r2) = outcome(lambda: pane.from_data([1, 2], VT))
                want = order[0](1)
                if k != 'ok' or type(r[0]) is not type(want):
                    self.ctx.fail('history-independent', 'derived-union-order:constrained-typevar',
                                  f"TypeVar('TV', list[Union[{order[0].__name__}, {order[1].__name__}]], str) given [1] after Union[list[Union[{other[0].__name__}, {other[1].__name__}]], str] "
                                  f"was written elsewhere: {k} {short(r, 60)!s}; the left-most member {order[0].__name__} gives [{want!r}]")
                    return
                if k2 != 'skip' and (k2 != 'ok' or type(list(r2)[0]) is not type(want)):
                    self.ctx.fail('history-independent', 'derived-union-order:ValueOrList',
                                  f"ValueOrList[Union[{order[0].__name__}, {order[1].__name__}]] given [1, 2] after List[Union[{other[0].__name__}, {other[1].__name__}]] "
                                  f"was written elsewhere: {k2} {short(r2, 60)!s}; the left-most member {order[0].__name__} gives {want!r} elements")
                    return
            for (Ty, order) in ((A, first), (B, second)):
                (k, r) = outcome(lambda: pane.from_data({'x': 1}, Ty))
                want = order[0](1)
                if k != 'ok' or type(r.x) is not type(want):
                    self.ctx.fail('history-independent', 'generic-subscription-union-order',
                                  f"G[Union[{first[0].__name__}, {first[1].__name__}]] subscripted first, then G[Union[{second[0].__name__}, {second[1].__name__}]]: "
                                  f"from_data({{'x': 1}}, G[Union[{order[0].__name__}, {order[1].__name__}]]) gave {k} {short(getattr(r, 'x', r), 40)!s}, "
                                  f"the left-most member {order[0].__name__} gives {want!r}")
                    return
        for (arg, good, bad) in ((int, 5, 's'), (str, 's', 5), (t.Literal[0], 0, 1)):
            (k1, r1) = outcome(lambda: pane.from_data({'x': good}, G[arg]))
            (k2, _) = outcome(lambda: pane.from_data({'x': bad}, G[arg]))
            if k1 != 'ok' or r1.x != good or k2 != 'ce':
                self.ctx.fail('history-independent', 'generic-subscription', f"after {n} subscriptions G[{arg}] accepts {good!r}: {k1}, refuses {bad!r}: {k2}")
                return
        self.ctx.label('mass-subscription')


def register_cases(shard: int, nshards: int) -> t.Iterator[t.Any]:
    # a handful of registrations per run (every registered handler stays for the life of the process)
    for i in range(8):
        if i % nshards == shard:
            yield [i]


def check_register(case: t.Any, ctx: Ctx) -> None:
    ctx.nontrivial(True)
    Executor(ctx)._register_after_use()


def reuse_cases(shard: int, nshards: int) -> t.Iterator[t.Any]:
    i = 0
    for lay in ('internal-class-attribute', 'external', 'adjacent'):
        for first in ('serialise', 'parse', 'convert-instance'):
            if i % nshards == shard:
                yield [lay, first]
            i += 1


def check_reuse(case: t.Any, ctx: Ctx) -> None:
    """A memoised tagged-union converter recognises a variant *instance* (inside Optional, where the enclosing union asks it) the
    second and third time as it did the first - whatever it was used for in between; a converter built afresh is the reference."""
    import pane
    import types as _types
    from pane.annotations import Tagged
    from pane.convert import make_converter
    (lay, first) = case
    ext: t.Any = {'internal-class-attribute': False, 'external': True, 'adjacent': ('type', 'value')}[lay]
    body = (lambda ns: ns.update({'__annotations__': {'r': float}, 'kind': 'circle'})) if lay.startswith('internal') else \
        (lambda ns: ns.update({'__annotations__': {'r': float, 'kind': t.Literal['circle']}, 'kind': 'circle'}))
    body2 = (lambda ns: ns.update({'__annotations__': {'side': float}, 'kind': 'square'})) if lay.startswith('internal') else \
        (lambda ns: ns.update({'__annotations__': {'side': float, 'kind': t.Literal['square']}, 'kind': 'square'}))
    Circle = _types.new_class('Circle', (pane.PaneBase,), {}, body)
    Square = _types.new_class('Square', (pane.PaneBase,), {}, body2)
    TU = t.Annotated[t.Union[Circle, Square], Tagged('kind', external=ext)]
    Doc = _types.new_class('Doc', (pane.PaneBase,), {}, lambda ns: ns.update({'__annotations__': {'name': str, 'shape': t.Optional[TU]}}))
    ctx.label(lay, f"first:{first}")
    ctx.nontrivial(True)
    x = Doc.make_unchecked(name='a', shape=Circle.make_unchecked(r=1.0))
    y = Doc.make_unchecked(name='b', shape=Square.make_unchecked(side=2.0))
    ref = outcome(lambda: pane.into_data(x, Doc))          # the first use of everything: nothing memoised has any history yet
    if ref[0] != 'ok':
        return
    steps = {'serialise': lambda: pane.into_data(y, Doc), 'parse': lambda: pane.from_data(ref[1], Doc),
             'convert-instance': lambda: make_converter(TU).convert(Square.make_unchecked(side=4.0))}
    outcome(steps[first])
    for (what, f, want) in (('into_data again', lambda: pane.into_data(x, Doc), ref[1]),
                            ('into_data of another instance', lambda: pane.into_data(y, Doc)['shape'], None),
                            ('an instance given to the memoised converter', lambda: make_converter(TU).convert(Square.make_unchecked(side=4.0)), Square.make_unchecked(side=4.0))):
        ctx.evaluated()
        (k, r) = outcome(f)
        if what.startswith('into_data of another'):
            want = pane.from_data({'name': 'b', 'shape': r}, Doc) if k == 'ok' else None
            ok = k == 'ok' and outcome(lambda: pane.from_data({'name': 'b', 'shape': r}, Doc)) == ('ok', y)
        else:
            ok = k == 'ok' and r == want
        if not ok:
            ctx.fail('history-independent', f"tagged-union-reused:{lay}", f"Optional[tagged union] ({lay}) field; after the first serialisation and one '{first}' step: "
                     f"{what} gave {k} {short(r, 120)}; the first time (and a converter built afresh) gives {short(want, 120)}")
            return


def fwd_cases(shard: int, nshards: int) -> t.Iterator[t.Any]:
    for i in range(4):
        if i % nshards == shard:
            yield [i]


def check_forward_ref(case: t.Any, ctx: Ctx) -> None:
    """A named tuple whose slot type is a forward reference that cannot be resolved *yet*: converting to it early must not leave a
    converter behind that differs from the one built once the name exists (a type whose slots cannot be resolved is refused, not
    converted with every slot taken for Any - and the refusal is not memoised)."""
    import pane
    (i,) = case
    name = f"LateLeaf{i}_{id(ctx) % 100000}"
    Node = t.NamedTuple('Node', [('val', int), ('child', name)])      # type: ignore
    ctx.nontrivial(True)
    ctx.evaluated()
    early = outcome(lambda: pane.from_data(['not an int', ['bad']], Node))
    globals()[name] = t.NamedTuple(name, [('x', int)])      # the name exists from now on
    try:
        late_bad = outcome(lambda: pane.from_data(['not an int', ['bad']], Node))
        late_good = outcome(lambda: pane.from_data([1, [2]], Node))
    finally:
        globals().pop(name, None)
    if early[0] == 'ok' or late_bad[0] != 'ce' or late_good[0] != 'ok' or late_good[1].child.x != 2:
        ctx.fail('history-independent', 'forward-reference-resolved-later', f"class Node(NamedTuple): val: int; child: '{name}'; converted before {name} exists: "
                 f"{early[0]} {short(early[1], 80)}; after it exists, bad data: {late_bad[0]} {short(late_bad[1], 80)}, good data: {late_good[0]} {short(late_good[1], 80)}")


def check_history(case: t.Any, ctx: Ctx) -> None:
    ex = Executor(ctx)
    for op in case:
        ex.apply(op)
    ctx.label(f"ops:{min(len(case) // 10 * 10, 100)}")


def render(case: t.Any) -> t.Any:
    out = []
    for op in case[:60]:
        if op[0] in ('build', 'temp'):
            try:
                ty = tg.node(op[1]).render()[:100]
            except Exception:
                ty = '?'
            out.append([op[0], ty] + [short(x, 60) for x in op[2:]])
        else:
            out.append([op[0]] + [short(x, 60) for x in op[1:]])
    return out


def make_machine(step_budget: int, big: bool) -> t.Any:
    specs = small_specs()

    class HistoryMachine(RuleBasedStateMachine):
        pv_report: t.Any = None

        def __init__(self) -> None:
            super().__init__()
            self.ctx = Ctx()
            self.ex = Executor(self.ctx)
            self.specs: t.List[t.Any] = []

        @initialize(spec=specs)
        def first(self, spec: t.Any) -> None:
            self.ex.apply(['build', spec])
            self.specs.append(spec)

        @rule(spec=specs)
        def build(self, spec: t.Any) -> None:
            self.ex.apply(['build', spec])
            self.specs.append(spec)

        @precondition(lambda self: len(self.specs) > 0)
        @rule(i=st.integers(0, 15))
        def build_permuted(self, i: int) -> None:
            # an *equal-looking* type: same shape, union members in the opposite order (typing's Union equality ignores order,
            # pane's semantics do not), or the same spec again as a new object
            spec = permuted(self.specs[i % len(self.specs)])
            self.ex.apply(['build', spec])
            self.specs.append(spec)

        @precondition(lambda self: len(self.ex.live) > 0)
        @rule(data=st.data(), i=st.integers(0, 7))
        def convert(self, data: t.Any, i: int) -> None:
            nd = self.ex.live[i % len(self.ex.live)]
            v = data.draw(st.one_of(nd.valid(), nd.valid(), tg.data_values(3)))
            self.ex.apply(['convert', i, v])

        @precondition(lambda self: len(self.ex.live) > 0)
        @rule(data=st.data(), i=st.integers(0, 7))
        def reconvert(self, data: t.Any, i: int) -> None:
            nd = self.ex.live[i % len(self.ex.live)]
            self.ex.apply(['reconvert', i, tg.plainify(data.draw(nd.valid()))])

        @precondition(lambda self: len(self.ex.live) > 0)
        @rule(data=st.data(), i=st.integers(0, 7))
        def roundtrip(self, data: t.Any, i: int) -> None:
            nd = self.ex.live[i % len(self.ex.live)]
            self.ex.apply(['roundtrip', i, tg.plainify(data.draw(nd.valid()))])

        @rule(data=st.data(), spec=specs)
        def temp_literal(self, data: t.Any, spec: t.Any) -> None:
            nd = tg.node(spec)
            v = tg.plainify(data.draw(st.one_of(nd.valid(), nd.valid(), tg.data_values(3))))
            self.ex.apply(['temp', spec, v])

        @precondition(lambda self: len(self.ex.live) > 0)
        @rule(i=st.integers(0, 7))
        def drop(self, i: int) -> None:
            self.ex.apply(['drop', i])

        @rule()
        def collect(self) -> None:
            self.ex.apply(['gc'])

        @precondition(lambda self: len(self.ex.live) > 0)
        @rule(data=st.data(), i=st.integers(0, 7), form=st.sampled_from(['callable', 'effective', 'sequence', 'mapping', 'effective']))
        def handlers(self, data: t.Any, i: int, form: str) -> None:
            nd = self.ex.live[i % len(self.ex.live)]
            self.ex.apply(['handlers', i, data.draw(nd.valid()), form])

        @precondition(lambda self: len(self.ex.live) > 0)
        @rule(data=st.data(), i=st.integers(0, 7))
        def memo(self, data: t.Any, i: int) -> None:
            nd = self.ex.live[i % len(self.ex.live)]
            self.ex.apply(['memo', i, [data.draw(nd.valid()), data.draw(tg.data_values(3))]])

        @precondition(lambda self: len(self.ex.live) > 0)
        @rule(data=st.data())
        def threads(self, data: t.Any) -> None:
            jobs = []
            for _ in range(data.draw(st.integers(4, 12))):
                i = data.draw(st.integers(0, 7))
                nd = self.ex.live[i % len(self.ex.live)]
                jobs.append([i, data.draw(st.one_of(nd.valid(), tg.data_values(3)))])
            self.ex.apply(['threads', jobs])

        if big:
            @rule(n=st.sampled_from([10, 300]))
            def subscript(self, n: int) -> None:
                self.ex.apply(['subscript', n])
        else:
            @rule(n=st.sampled_from([3, 20, 300]))
            def subscript(self, n: int) -> None:
                self.ex.apply(['subscript', n])

        def teardown(self) -> None:
            self.ctx.label(f"ops:{min(len(self.ex.ops) // 10 * 10, 100)}")
            if self.ctx.evals == 0:
                self.ctx.evals = 1
            rep = type(self).pv_report
            if rep is not None:
                rep(list(self.ex.ops), self.ctx)

    return HistoryMachine


# ---- KeyCache driven directly ------------------------------------------------------------------------------

@st.composite
def keycache_cases(draw) -> t.Any:
    maxsize = draw(st.sampled_from([None, 1, 2, 3, 4]))
    calls = draw(st.lists(st.integers(0, 6), min_size=1, max_size=40))
    return [maxsize, calls]


def check_keycache(case: t.Any, ctx: Ctx) -> None:
    from pane.util import key_cache
    (maxsize, calls) = case
    ncalls = [0]

    def f(x: int) -> t.Tuple[str, int]:
        ncalls[0] += 1
        return ('value-of', x)
    cached = key_cache(lambda x: ('key', x), maxsize=maxsize)(f)
    ctx.label(f"keycache:maxsize={maxsize}")
    ctx.nontrivial(len(set(calls)) > (maxsize or 0))
    for (i, x) in enumerate(calls):
        ctx.evaluated()
        (k, r) = outcome(lambda: cached(x))
        if k != 'ok' or r != ('value-of', x):
            ctx.fail('keycache-transparent', f"maxsize={maxsize}", f"maxsize={maxsize}, calls {calls[:i + 1]}: call {i} returned {short(r, 60)} instead of ('value-of', {x})")
            return
        if maxsize is not None and len(cached.cache) > maxsize:
            ctx.fail('keycache-bounded', f"maxsize={maxsize}", f"maxsize={maxsize}, calls {calls[:i + 1]}: cache holds {len(cached.cache)} entries")
            return
    if maxsize is None and ncalls[0] != len(set(calls)):
        ctx.fail('keycache-transparent', 'unbounded-recomputes', f"unbounded cache recomputed: {ncalls[0]} calls of f for {len(set(calls))} distinct arguments")


# ---- the text of a refusal, in a fresh interpreter with and without an earlier conversion ---------------------------------------
#
# "The outcome ... depends only on those three things": a refusal's message is part of the outcome.  typing hands out one object for
# every spelling of ``List[int]``, so one memoised converter serves it bare, as an element, as a mapping value, as a union member; what
# it says about itself must not depend on who asked first.  History-free reference: the same conversion alone in a new interpreter.

TEXT_PAIRS = [
    ("t.List[int]", 5), ("t.Dict[str, t.List[int]]", 5), ("t.Dict[str, t.List[int]]", {'a': 5}), ("t.List[t.List[int]]", [5]), ("t.List[t.List[int]]", 5),
    ("t.Optional[t.List[int]]", 5), ("t.Tuple[t.List[int], int]", [5, 5]), ("t.Tuple[t.List[int], int]", 'x'),
    ("t.Dict[str, int]", 5), ("t.List[t.Dict[str, int]]", 5), ("t.List[t.Dict[str, int]]", [5]), ("t.Union[t.Dict[str, int], t.List[int]]", 5),
    ("t.Set[str]", 5), ("t.List[t.Set[str]]", 5), ("t.Tuple[int, ...]", 'x'), ("t.List[t.Tuple[int, ...]]", 5),
    ("t.Dict[str, t.Tuple[int, str]]", 5), ("t.Tuple[int, str]", 5), ("t.List[t.Optional[int]]", 5), ("t.Optional[int]", 'x'),
]
_TEXT_ALONE: t.Dict[int, t.Any] = {}
_TEXT_SCRIPT = r'''
import sys, json, warnings
warnings.simplefilter('ignore')
import typing as t
import pane
pairs = json.loads(sys.argv[1]); order = json.loads(sys.argv[2]); out = []
for i in order:
    (src, v) = pairs[i]
    T = eval(src)
    try:
        r = pane.from_data(v, T); out.append([i, 'ok', repr(r)])
    except pane.ConvertError as e:
        out.append([i, 'ce', str(e), repr(e.tree)])
    except Exception as e:
        out.append([i, 'exc', type(e).__name__ + ': ' + str(e)])
print(json.dumps(out))
'''


def _text_run(order: t.List[int]) -> t.Any:
    import json
    import subprocess
    import sys
    r = subprocess.run([sys.executable, '-c', _TEXT_SCRIPT, json.dumps(TEXT_PAIRS), json.dumps(order)], capture_output=True, text=True, timeout=300)
    if r.returncode != 0:
        raise HarnessError(f"child interpreter failed: {r.stderr[-500:]}")
    return json.loads(r.stdout.strip().splitlines()[-1])


def text_cases(shard: int, nshards: int) -> t.Iterator[t.Any]:
    n = len(TEXT_PAIRS)
    for i in range(n):
        if i % nshards == shard:
            yield [i]


_SHARED = ['t.List[int]', 't.Dict[str, int]', 't.Set[str]', 't.Tuple[int, ...]', 't.Tuple[int, str]', 't.Optional[int]']


def check_text_related(case: t.Any, ctx: Ctx) -> None:
    check_text(case, ctx, related_only=True)


def check_text(case: t.Any, ctx: Ctx, related_only: bool = False) -> None:
    (i,) = case
    n = len(TEXT_PAIRS)
    ctx.label('refusal-text')
    ctx.nontrivial(True)
    alone = _text_run([i])[0][1:]
    # after every other conversion of the table (one child interpreter per predecessor), and after all of them
    others = [j for j in range(n) if j != i]
    # (quick tier: single predecessors only where the two types share a sub-type object; the two runs after all the others always)
    singles = [j for j in others if not related_only or any(sh in TEXT_PAIRS[i][0] and sh in TEXT_PAIRS[j][0] for sh in _SHARED)]
    for order in [*([j, i] for j in singles), [*others, i], [*reversed(others), i]]:
        ctx.evaluated()
        got = _text_run(order)[-1][1:]
        if got != alone:
            (src, v) = TEXT_PAIRS[i]
            before = [TEXT_PAIRS[j] for j in order[:-1]]
            ctx.fail('history-independent', 'refusal-text', f"from_data({v!r}, {src}) alone in a fresh interpreter: {alone}; in a fresh interpreter after "
                     f"{before if len(before) <= 2 else str(len(before)) + ' other conversions of the table'}: {got}")
            return


def suites(tier: str) -> t.List[Suite]:
    big = tier == 'thorough'
    steps = 120 if big else 50
    return [
        Suite('history', check_history, stateful=lambda: make_machine(steps, big), examples=400 if big else 40, step_count=steps,
              budget_s=480 if big else 45, render=render),
        Suite('tagged-union-reused', check_reuse, cases=reuse_cases, exhaustive=True, budget_s=20, render=lambda c: {'layout': c[0], 'first use': c[1]}),
        Suite('forward-reference', check_forward_ref, cases=fwd_cases, exhaustive=True, budget_s=20, render=lambda c: {'n': c[0]}),
        Suite('register-after-use', check_register, cases=register_cases, exhaustive=True, budget_s=30, render=lambda c: {'registration': c[0]}),
        Suite('refusal-text', check_text if big else check_text_related, cases=text_cases, exhaustive=True, budget_s=300, render=lambda c: {'type': TEXT_PAIRS[c[0]][0], 'value': TEXT_PAIRS[c[0]][1]}),
        Suite('keycache', check_keycache, strategy=keycache_cases, examples=3000 if big else 300, budget_s=60),
    ]
