"""
C05  Serialise / parse round trip.

x = from_data(v, T) for a generated valid v; then
  (a) d = into_data(x, T) consists solely of interchange values (exact concrete types; a bool stays a bool),
  (b) from_data(d, T) is the same as x,
  (c) into_data(from_data(d, T), T) equals d (lists compared as multisets when the type contains a set),
  (d) x.into_data() equals into_data(x, Cls) for dataclass roots.
Sound exclusions (counted): a dataclass whose output form is not enabled on input; an untagged union whose
serialised form is captured by a different member on re-read (inherent to untagged unions); excluded fields
without a default.
"""

from __future__ import annotations

import collections
import typing as t

from hypothesis import strategies as st

from ..core import Suite, Ctx, triage_exception
from .. import tg, cg, gen
from ..same import same, SKIP_EXCLUDED
from ..codec import short
from ..oracles import outcome, blame

ID = 'C05'
RULE = ("Hypothesis: type spec from the full grammar x a value built from the type (plain lists/dicts so that Any positions are "
        "exactly representable); x = from_data(v, T); oracles (a)-(d) of the module docstring. Dataclasses cover all layout / rename / "
        "alias / out_name configurations whose output form is enabled on input. Non-trivial = the serialised data differs from the "
        "input data (something was converted and serialised back) or the root is a dataclass with a non-default naming/layout option; "
        "distinct by (type spec, value).")
ASSUMPTIONS = [
    "cases whose reference verdict is reject/unspecified are skipped (counted): the property is about values obtained by a conversion",
    "untagged unions whose serialised form is claimed by a different member on re-read are excluded (counted as ambiguous-union)",
]

INTERCHANGE_SCALARS = (str, bytes, int, bool, float, complex, type(None))


plainify = tg.plainify


def non_interchange(d: t.Any, path: str = '$') -> t.Optional[str]:
    ty = type(d)
    if ty in INTERCHANGE_SCALARS:
        return None
    if isinstance(d, INTERCHANGE_SCALARS):
        # "interchange scalars map to themselves": the plain scalar, not an instance of a subclass (a numpy.bytes_, a user class, an
        # enum member), which emitters like PyYAML's refuse to represent
        return f"{path}: an instance of {ty.__module__}.{ty.__name__} ({d!r:.60}), a subclass of an interchange scalar type, not the plain scalar"
    if ty in (list, tuple):
        for (i, x) in enumerate(d):
            r = non_interchange(x, f"{path}[{i}]")
            if r:
                return r
        return None
    if ty is dict:
        for (k, x) in d.items():
            r = non_interchange(k, f"{path}<key {k!r}>") or non_interchange(x, f"{path}[{k!r}]")
            if r:
                return r
        return None
    return f"{path}: {ty.__module__}.{ty.__name__} ({d!r:.60}) is not an interchange type"


def canon(d: t.Any, unordered: bool) -> t.Any:
    if isinstance(d, dict):
        return ('d', sorted(((repr(canon(k, unordered)), canon(k, unordered), canon(v, unordered)) for (k, v) in d.items()), key=lambda p: p[0]))
    if isinstance(d, (list, tuple)):
        items = [canon(x, unordered) for x in d]
        if unordered:
            items = sorted(items, key=repr)
        return (type(d).__name__, items)
    if isinstance(d, float):
        return ('f', repr(d))
    if isinstance(d, complex):
        return ('c', repr(d))
    return (type(d).__name__, d)


def d9_config(nd: tg.Node) -> bool:
    """Known finding D9: out_format='tuple' emits keyword-only fields that tuple input refuses."""
    for n in nd.walk():
        if isinstance(n, cg.ClsNode) and n.out_format == 'tuple' and any(f.kw_only and not f.exclude for f in n.fields):
            return True
    return False


def vol_in_union(nd: tg.Node) -> bool:
    """Known finding D31: a ValueOrList member of an untagged union next to a member that accepts any object."""
    for n in nd.walk():
        if isinstance(n, tg.Union) or (isinstance(n, tg.TypeVarN) and n.mode == 'constrained'):
            ms = n.members if isinstance(n, tg.Union) else n.inner.members  # type: ignore
            if any(isinstance(m, tg.Vol) or (isinstance(m, tg.TypeVarN) and isinstance(m.inner, tg.Vol)) for m in ms) and len(ms) > 1:
                return True
    return False


def _fail(ctx: Ctx, nd: tg.Node, oracle: str, detail: str, where: t.Optional[tg.Node] = None) -> None:
    if d9_config(nd):
        ctx.fail(oracle, 'dataclass:tuple-out-with-kw-only-field', detail)
    else:
        ctx.fail(oracle, (where or nd).kind, detail)


def inherently_ambiguous(nd: tg.Node, v: t.Any, x: t.Any, trace_v: t.List[t.Any]) -> bool:
    """
    The sound exclusion "an earlier member captures the serialised form on re-read" holds only when that is true of the
    serialisation *by the member that produced x*.  For a union at the root this is decided by observation: serialise x with the
    producing member's type alone and ask the reference where that data lands.  If it lands where v did, the union is not
    ambiguous for this value and a serialisation that re-reads elsewhere is the union's own doing (a member that narrows the
    value, a serialiser picked by a loose isinstance test).  Below the root the old, wider exclusion stays.
    """
    import pane
    if isinstance(nd, tg.Vol):
        # value-or-list at the root: x made by the list side is written as a list.  Only a list which the value side takes as well
        # (an element type that itself accepts lists) is ambiguous; a list of one written as its bare element is the serialiser's doing
        from pane.types import ValueOrList
        if isinstance(x, ValueOrList) and not x._is_val:
            (k, d) = outcome(lambda: pane.into_data(x, nd.pytype()))
            return k == 'ok' and tg.is_seq(d)
        return True
    if not isinstance(nd, tg.Union):
        return True
    (r, i) = nd.ref_index(v)
    if i is None:
        return True
    (k, d_i) = outcome(lambda: pane.into_data(x, nd.members[i].pytype()))
    if k != 'ok' or non_interchange(d_i) is not None:
        return True
    (rd, trace_i) = tg.ref_traced(nd, d_i)
    return not (isinstance(rd, tg.Acc) and trace_i == trace_v)


def roundtrip_problem(nd: tg.Node, v: t.Any) -> t.Optional[t.Tuple[str, str]]:
    """Run oracles (a)-(c) for (nd, v); -> (oracle, detail) of the first failure, or None.  Raises _Skip for excluded cases."""
    import pane
    T = nd.pytype()
    (r, trace_v) = tg.ref_traced(nd, v)
    if not isinstance(r, tg.Acc):
        raise _Skip('reference verdict is not accept')
    (k, x) = outcome(lambda: pane.from_data(v, T))
    if k != 'ok':
        raise _Skip('from_data did not accept (C01 reports that)')
    (k, d) = outcome(lambda: pane.into_data(x, T))
    call = f"T = {nd.render()[:300]}; x = from_data({short(v, 150)}, T) = {short(x, 150)}"
    if k != 'ok':
        return ('into_data-total', f"{call}; into_data(x, T) raised {type(d).__name__}: {str(d)[:200]}")
    bad = non_interchange(d)
    if bad is not None:
        return ('interchange-only', f"{call}; into_data(x, T) = {short(d, 150)}; {bad}")
    (rd, trace_d) = tg.ref_traced(nd, d)
    if isinstance(rd, tg.Unspec):
        raise _Skip('re-read lands in an unspecified cell')
    if isinstance(rd, tg.Acc) and trace_v != trace_d and inherently_ambiguous(nd, v, x, trace_v):
        raise _Skip('ambiguous-union')
    (k, y) = outcome(lambda: pane.from_data(d, T))
    if k != 'ok':
        if isinstance(rd, tg.Rej) and any(n.kind in ('union', 'ValueOrList') or n.kind.startswith('typevar') for n in nd.walk()) and trace_v != trace_d \
                and inherently_ambiguous(nd, v, x, trace_v):
            raise _Skip('ambiguous-union')
        return ('reparse', f"{call}; d = into_data(x, T) = {short(d, 150)}; from_data(d, T) raised {type(y).__name__}: {str(y)[:300]}")
    SKIP_EXCLUDED[0] = True
    try:
        diff = same(y, x)
    finally:
        SKIP_EXCLUDED[0] = False
    if diff is not None:
        if trace_v != trace_d and inherently_ambiguous(nd, v, x, trace_v):
            raise _Skip('ambiguous-union')
        return ('reparse-equal', f"{call}; d = {short(d, 150)}; from_data(d, T) = {short(y, 150)} differs: {diff}")
    (k, d2) = outcome(lambda: pane.into_data(y, T))
    if k != 'ok':
        return ('into_data-total', f"{call}; second into_data raised {type(d2).__name__}: {str(d2)[:200]}")
    unordered = any(isinstance(n, tg.Seq) and n.setlike for n in nd.walk())
    if canon(d2, unordered) != canon(d, unordered):
        return ('reserialise-stable', f"{call}; d = {short(d, 150)} but serialising the re-read value gives {short(d2, 150)}")
    return None


class _Skip(Exception):
    pass


def check(case: t.Any, ctx: Ctx) -> None:
    import pane
    (spec, v) = case[:2]
    nd = tg.node(spec)
    T = nd.pytype()
    ctx.label(f"root:{nd.kind.split(':')[0]}")
    for n in nd.walk():
        if isinstance(n, cg.ClsNode) and not n.output_readable():
            ctx.exclude('dataclass output form not enabled on input (or excluded field shifts/lacks default)')
            ctx.label('skip:unreadable-output')
            return
    try:
        res = roundtrip_problem(nd, v)
    except _Skip as e:
        ctx.exclude(str(e))
        ctx.label(f"skip:{e}")
        return
    ctx.evaluated(3)
    ctx.label('checked')
    if res is None and len(case) > 3 and case[3] is not None:
        # the same type object again with another value, then the first value once more:
        # the answer must depend on nothing but T and the value (no state carried between calls)
        for (i, v_again) in enumerate((case[3], v)):
            try:
                r2 = roundtrip_problem(nd, v_again)
            except _Skip:
                continue
            ctx.evaluated(3)
            if r2 is not None:
                res = (r2[0], r2[1] + f"  [value {i + 2} given to the same type object after {short(v, 80)}]")
                v = v_again
                break
    if res is not None:
        def failing(n: tg.Node, x: t.Any) -> bool:
            if any(isinstance(m, cg.ClsNode) and not m.output_readable() for m in n.walk()):
                return False
            try:
                return roundtrip_problem(n, x) is not None
            except _Skip:
                return False
        where = blame(nd, v, failing)
        _fail(ctx, nd, res[0], res[1], where)
        return
    # non-triviality
    x = pane.from_data(v, T)
    d = pane.into_data(x, T)
    changed = canon(d, False) != canon(v, False) if not isinstance(v, (collections.abc.Mapping,)) or isinstance(v, dict) else True
    opt = isinstance(nd, cg.ClsNode) and bool(set(nd.opts) & {'rename', 'in_rename', 'out_rename', 'in_format', 'out_format'})
    ctx.nontrivial(changed or opt)
    if isinstance(nd, cg.ClsNode):
        ctx.evaluated()
        (k, d_m) = outcome(lambda: x.into_data())
        if k != 'ok' or canon(d_m, False) != canon(d, False):
            _fail(ctx, nd, 'method-agrees', f"x.into_data() = {short(d_m, 150)} but into_data(x, {nd.name}) = {short(d, 150)}")
        ctx.label(f"cls:out={nd.out_format}", *(f"cls:{k}" for k in nd.opts if k in ('rename', 'in_rename', 'out_rename')))


@st.composite
def cases(draw, specs: st.SearchStrategy[t.Any]) -> t.Any:
    spec = draw(specs)
    nd = tg.node(spec)
    v = plainify(draw(nd.valid()))
    v2 = plainify(draw(nd.valid())) if draw(st.booleans()) else None
    return [spec, v, 'valid', v2]


# ---- fields pane does not take on input (init=False) but writes on output (known finding D73) -----------------

@st.composite
def init_false_cases(draw) -> t.Any:
    return [draw(st.sampled_from(['struct', 'tuple'])), draw(st.integers(-3, 3)), draw(st.booleans()), draw(st.sampled_from([None, 'camel', 'scream']))]


_IF_CACHE: t.Dict[str, t.Any] = {}


def check_init_false(case: t.Any, ctx: Ctx) -> None:
    import pane
    (layout, a, derived_first, rename) = case
    key = repr((layout, derived_first, rename))
    if key not in _IF_CACHE:
        ann = {'twice': int, 'a': int} if derived_first else {'a': int, 'twice': int}
        opts: t.Dict[str, t.Any] = {'in_format': (layout,), 'out_format': layout}
        if rename:
            opts['rename'] = rename
        _IF_CACHE[key] = type('Derived', (pane.PaneBase,), {'__annotations__': ann, 'twice': pane.field(init=False, default=0)}, **opts)
    Cls = _IF_CACHE[key]
    ctx.label(f"init-false:{layout}")
    ctx.nontrivial(True)
    ctx.evaluated()
    x = pane.from_data({'a': a} if layout == 'struct' else [a], Cls)
    (k, d) = outcome(lambda: pane.into_data(x, Cls))
    if k != 'ok':
        ctx.fail('into_data-total', 'dataclass:init-false-field-in-output', f"into_data raised {type(d).__name__}: {d}")
        return
    (k, y) = outcome(lambda: pane.from_data(d, Cls))
    if k != 'ok' or y != x:
        ctx.fail('reparse', 'dataclass:init-false-field-in-output', f"class Derived(PaneBase, in_format=({layout!r},), out_format={layout!r}): a: int; twice: int = field(init=False, default=0); "
                 f"x = {x!r}; into_data(x) = {d!r}; from_data of that: {str(y)[:200]}")


# ---- a type served by a handler (class-level or call-level) ------------------------------------------------------------------------
#
# A third-party type converted by a custom handler (docs/using/advanced.md style: the converter reads the data form only) round-trips
# like a built-in one wherever it sits - a plain field, Optional, a union with other members, a list of unions - whether the handler
# comes from the dataclass (custom=) or from the call.

_HM: t.Dict[str, t.Any] = {}
HM_FIELDS = ['plain', 'optional', 'union', 'list-of-union', 'dict-of-optional']


def hm_cases(shard: int, nshards: int) -> t.Iterator[t.Any]:
    i = 0
    for src in ('class', 'call', 'inherited'):
        for field in HM_FIELDS:
            for present in (True, False):
                if i % nshards == shard:
                    yield [src, field, present]
                i += 1


def check_handled_member(case: t.Any, ctx: Ctx) -> None:
    import pane
    from pane.converters import Converter
    from pane.errors import ParseInterrupt, WrongTypeError
    (src, field, present) = case
    if 'Money' not in _HM:
        class Money:
            def __init__(self, amount: str, cur: str) -> None:
                (self.amount, self.cur) = (amount, cur)

            def __eq__(self, other: t.Any) -> bool:
                return type(other) is Money and (self.amount, self.cur) == (other.amount, other.cur)

            def __repr__(self) -> str:
                return f"Money({self.amount!r}, {self.cur!r})"

        class MoneyConv(Converter):      # type: ignore
            def expected(self, plural: bool = False) -> str:
                return "amounts like '12.50 EUR'"

            def try_convert(self, val: t.Any) -> t.Any:
                if not isinstance(val, str) or len(val.split(' ')) != 2:
                    raise ParseInterrupt()       # (the data form only: a Money instance is not data)
                return Money(*val.split(' '))

            def collect_errors(self, val: t.Any) -> t.Any:
                return None if isinstance(val, str) and len(val.split(' ')) == 2 else WrongTypeError(self.expected(), val)

            def into_data(self, val: t.Any) -> t.Any:
                return f"{val.amount} {val.cur}"
        _HM['Money'] = Money
        _HM['handlers'] = {Money: MoneyConv()}
    Money = _HM['Money']
    H = _HM['handlers']
    ftype = {'plain': Money, 'optional': t.Optional[Money], 'union': t.Union[int, Money, None], 'list-of-union': t.List[t.Union[int, Money]],
             'dict-of-optional': t.Dict[str, t.Optional[Money]]}[field]
    fdata: t.Any = {'plain': '1.00 EUR', 'optional': '1.00 EUR' if present else None, 'union': '2 USD' if present else 5,
                    'list-of-union': ['3 CHF', 4] if present else [4], 'dict-of-optional': {'a': '5 SEK', 'b': None} if present else {}}[field]
    key = (src, field)
    if key not in _HM:
        Base = type('HmBase', (pane.PaneBase,), {'__annotations__': {}}, **({'custom': H} if src == 'inherited' else {}))
        _HM[key] = type('Invoice', (Base,), {'__annotations__': {'number': int, 'f': ftype}}, **({'custom': H} if src == 'class' else {}))
    T = _HM[key]
    custom = H if src == 'call' else None
    ctx.label(f"handler:{src}", field)
    ctx.nontrivial(True)
    data = {'number': 7, 'f': fdata}
    ident = f"class Invoice(number: int, f: {field}) with the Money handler from the {src}; data {data}"
    ctx.evaluated()
    (k, x) = outcome(lambda: pane.from_data(data, T, custom=custom))
    if k != 'ok':
        return        # (reading is C18's subject)
    (k2, d) = outcome(lambda: pane.into_data(x, T, custom=custom))
    if k2 != 'ok':
        ctx.fail('into_data-total', f"handled-member:{field}", f"{ident}: x = {short(x, 120)}; into_data raised {type(d).__name__}: {str(d)[:200]}")
        return
    bad = non_interchange(d)
    if bad is not None:
        ctx.fail('interchange-only', f"handled-member:{field}", f"{ident}: into_data = {short(d, 120)}; {bad}")
        return
    (k3, y) = outcome(lambda: pane.from_data(d, T, custom=custom))
    if k3 != 'ok' or y != x or d != data:
        ctx.fail('reparse', f"handled-member:{field}", f"{ident}: written as {short(d, 120)}, read back as {short(y, 120)} ({k3})")


# ---- one enum written in several handler contexts of one process ------------------------------------------------------------------
#
# The data form of an enum member is the data form of its value, and that depends on the handlers in effect (a dataclass which stores
# ints as hex text stores its int-valued enum members so too).  Each context reads back what it wrote, whichever context wrote the
# member first.

import itertools as _it

_EH: t.Dict[str, t.Any] = {}
EH_CONTEXTS = ['plain', 'class-handler', 'call-handler', 'list-in-class']


def eh_cases(shard: int, nshards: int) -> t.Iterator[t.Any]:
    i = 0
    for order in _it.permutations(range(len(EH_CONTEXTS)), 3):
        for member in ('LOW', 'HIGH'):
            if i % nshards == shard:
                yield [list(order), member]
            i += 1


def check_enum_contexts(case: t.Any, ctx: Ctx) -> None:
    import enum
    import pane
    from pane.converters import Converter
    from pane.errors import ParseInterrupt, WrongTypeError
    (order, member) = case

    class HexInt(Converter):      # type: ignore
        def expected(self, plural: bool = False) -> str:
            return 'hex text'

        def try_convert(self, val: t.Any) -> t.Any:
            if not isinstance(val, str) or not val.startswith('0x'):
                raise ParseInterrupt()
            return int(val, 16)

        def collect_errors(self, val: t.Any) -> t.Any:
            return None if isinstance(val, str) and val.startswith('0x') else WrongTypeError(self.expected(), val)

        def into_data(self, val: t.Any) -> t.Any:
            return hex(val)
    # (a fresh enum and fresh classes per case: what is remembered about one case's members must not help the next)
    Level = enum.Enum('Level', {'LOW': 1, 'HIGH': 31})
    H = {int: HexInt()}
    Reg = type('Register', (pane.PaneBase,), {'__annotations__': {'addr': int, 'level': Level}}, custom=H)
    Regs = type('Registers', (pane.PaneBase,), {'__annotations__': {'levels': t.List[Level]}}, custom=H)
    m = Level[member]
    ctx.label('enum-contexts')
    ctx.nontrivial(True)
    forms = {
        'plain': (Level, None, m.value, m),
        'class-handler': (Reg, None, {'addr': '0x10', 'level': hex(m.value)}, None),
        'call-handler': (t.Dict[str, Level], H, {'k': hex(m.value)}, {'k': m}),
        'list-in-class': (Regs, None, {'levels': [hex(m.value), '0x1']}, None),
    }
    done: t.List[str] = []
    for ci in order:
        cname = EH_CONTEXTS[ci]
        (T, custom, data, want) = forms[cname]
        ident = f"enum Level(LOW=1, HIGH=31), member {member}, in context {cname!r} (after {done}); data {data!r}"
        ctx.evaluated()
        (k, x) = outcome(lambda: pane.from_data(data, T, custom=custom))
        if k != 'ok' or (want is not None and x != want):
            ctx.fail('reparse', f"enum-contexts:read:{cname}", f"{ident}: from_data gave {short(x, 150)}")
            return
        (k2, d) = outcome(lambda: pane.into_data(x, T, custom=custom))
        if k2 != 'ok' or d != data or non_interchange(d) is not None:
            ctx.fail('reparse', f"enum-contexts:written:{cname}", f"{ident}: read as {short(x, 100)}, written as {short(d, 150)}")
            return
        (k3, y) = outcome(lambda: pane.from_data(d, T, custom=custom))
        if k3 != 'ok' or y != x:
            ctx.fail('reparse', f"enum-contexts:reread:{cname}", f"{ident}: written as {short(d, 100)}, read back as {short(y, 150)}")
            return
        done.append(cname)


def suites(tier: str) -> t.List[Suite]:
    big = tier == 'thorough'
    leaves = 8 if big else 4
    return [
        Suite('roundtrip', check, strategy=lambda: cases(gen.all_type_specs(leaves)), examples=8000 if big else 600, budget_s=480 if big else 40, render=gen.render_case),
        Suite('init-false', check_init_false, strategy=init_false_cases, examples=200 if big else 20, budget_s=30 if big else 10,
              render=lambda c: {'layout': c[0], 'a': c[1], 'derived field first': c[2], 'rename': c[3]}),
        Suite('handled-member', check_handled_member, cases=hm_cases, exhaustive=True, budget_s=30,
              render=lambda c: {'handler from': c[0], 'field': c[1], 'value present': c[2]}),
        Suite('enum-contexts', check_enum_contexts, cases=eh_cases, exhaustive=True, budget_s=30,
              render=lambda c: {'contexts in this order': [EH_CONTEXTS[i] for i in c[0]], 'member': c[1]}),
        Suite('overlap-unions', check, strategy=lambda: cases(gen.overlap_union_specs()), examples=4000 if big else 450, budget_s=300 if big else 30, render=gen.render_case),
    ]
