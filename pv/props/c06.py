"""
C06  Typed values are fixed points of convert.

x is a typed value of T: either the result of from_data(v, T) or an
equivalent natively built object (reference image materialised with plain
constructors / make_unchecked).  Oracles:
    same(convert(x, T), x)
    same(convert(convert(v, T), T), convert(v, T))
    Holder(f=x).f is the same as x for a dataclass field f: T
Excluded per the statement: externally / adjacently tagged unions; also
dataclasses whose output form is not enabled on input, and untagged unions
where the value's own serialised form is claimed by an earlier member.
"""

from __future__ import annotations

import typing as t

from hypothesis import strategies as st

from ..core import Suite, Ctx
from .. import tg, cg, gen
from ..same import same, SKIP_EXCLUDED
from ..codec import short
from ..oracles import outcome, blame
from .c05 import non_interchange, vol_in_union, d9_config

ID = 'C06'
RULE = ("Hypothesis: type spec from the full grammar x value built from the type; x = from_data(v, T) and the natively built "
        "equivalent (Fraction, Decimal, datetime, paths, compiled patterns, sets, deques, enum members, dataclass instances via "
        "make_unchecked, ValueOrList, arrays); plus pane.types.Range instances. Oracles in the module docstring. Non-trivial = x "
        "contains at least one non-interchange object (so convert must infer the serialiser from the runtime type); distinct by case.")
ASSUMPTIONS = [
    "externally/adjacently tagged unions are outside the property (its own statement)",
    "untagged unions whose runtime-type serialisation is claimed by an earlier member are excluded and counted (ambiguous-union)",
    "dataclass equality is taken modulo excluded fields",
]


def excluded_reason(nd: tg.Node) -> t.Optional[str]:
    for n in nd.walk():
        if isinstance(n, cg.TaggedNode) and n.layout != 'internal':
            return 'external/adjacent tagged union (excluded by the statement)'
        if isinstance(n, cg.TaggedNode):
            # convert() serialises by the value's own type: the statement ranges over types that read that form.  An internally
            # tagged union does so only if each variant writes the tag itself, under the tag's name
            for vn in n.variants:
                tf = next((f for f in vn.fields if f.name == n.tag), None)
                if tf is None or tf.exclude or tf.out_name != n.tag:
                    return 'internally tagged union whose variant does not write the tag itself (not its own serialised form)'
        if isinstance(n, cg.ClsNode) and not n.output_readable():
            return 'dataclass output form not enabled on input'
    return None


def has_non_interchange(x: t.Any) -> bool:
    return non_interchange(x) is not None


_HOLDERS: t.Dict[str, t.Any] = {}


def holder(nd: tg.Node) -> t.Any:
    import pane
    k = cg.spec_key(nd.spec)
    if k not in _HOLDERS:
        _HOLDERS[k] = type('Holder', (pane.PaneBase,), {'__annotations__': {'f': nd.pytype()}})
    return _HOLDERS[k]


class _Skip(Exception):
    pass


def _vol_list_written_bare(nd: tg.Node, x: t.Any, d: t.Any) -> bool:
    """A value-or-list at the root whose *list* variant is written as something that is not a list: nothing ambiguous about the
    type, the serialiser dropped the list (a list of one written as its bare element)."""
    if not isinstance(nd, tg.Vol):
        return False
    from pane.types import ValueOrList
    return isinstance(x, ValueOrList) and not x._is_val and not tg.is_seq(d)


def fixed_point_problem(nd: tg.Node, v: t.Any, native: bool) -> t.Optional[t.Tuple[str, str]]:
    import pane
    T = nd.pytype()
    (r, trace_v) = tg.ref_traced(nd, v)
    if not isinstance(r, tg.Acc):
        raise _Skip('reference verdict is not accept')
    if native:
        try:
            x = cg.materialise(r.image)
        except Exception:
            raise _Skip('native construction failed (validation hook)')
        how = 'natively built'
    else:
        (k, x) = outcome(lambda: pane.from_data(v, T))
        if k != 'ok':
            raise _Skip('from_data did not accept (C01 reports that)')
        how = f'from_data({short(v, 120)}, T)'
    # the value's own serialised form, to detect inherent union ambiguity
    # (only where there is a union to be ambiguous about: without one, convert(x, T) must simply succeed - also for values whose
    #  own serialised form is the value itself, such as members of str / int mixin enums)
    has_union = any(n.kind in ('union', 'ValueOrList', 'tagged') or n.kind.startswith('typevar') for n in nd.walk())
    (k, d) = outcome(lambda: pane.into_data(x)) if has_union else ('skip', None)
    if k == 'ok':
        (rd, trace_d) = tg.ref_traced(nd, d)
        if isinstance(rd, tg.Unspec):
            raise _Skip('own serialised form lands in an unspecified cell')
        if trace_v != trace_d and not _vol_list_written_bare(nd, x, d):
            raise _Skip('ambiguous-union')
    call = f"T = {nd.render()[:300]}; x = {how} = {short(x, 150)}"
    (k, y) = outcome(lambda: pane.convert(x, T))
    if k != 'ok':
        return ('convert-accepts-typed', f"{call}; convert(x, T) raised {type(y).__name__}: {str(y)[:300]}")
    SKIP_EXCLUDED[0] = True
    try:
        diff = same(y, x)
    finally:
        SKIP_EXCLUDED[0] = False
    if diff is not None:
        return ('convert-fixed-point', f"{call}; convert(x, T) = {short(y, 150)} differs: {diff}")
    return None


def check(case: t.Any, ctx: Ctx) -> None:
    import pane
    (spec, v, how, native) = case
    nd = tg.node(spec)
    ctx.label(f"root:{nd.kind.split(':')[0]}", 'native' if native else 'converted')
    why = excluded_reason(nd)
    if why is not None:
        ctx.exclude(why)
        ctx.label('skip:' + why.split(' (')[0][:30])
        return
    try:
        res = fixed_point_problem(nd, v, native)
    except _Skip as e:
        ctx.exclude(str(e))
        ctx.label(f'skip:{e}'[:40])
        return
    ctx.evaluated(2)
    klass_override = None
    if d9_config(nd):
        klass_override = 'dataclass:tuple-out-with-kw-only-field'
    if res is not None:
        def failing(n: tg.Node, x: t.Any) -> bool:
            if excluded_reason(n) is not None:
                return False
            try:
                return fixed_point_problem(n, x, native) is not None
            except _Skip:
                return False
        where = blame(nd, v, failing)
        ctx.fail(res[0], klass_override or where.kind, res[1])
        return
    T = nd.pytype()
    x = pane.from_data(v, T)
    ctx.nontrivial(has_non_interchange(x))
    # constructor accepts the typed argument unchanged
    if not any(n.kind in ('struct-literal', 'tuple-literal') for n in nd.walk()):
        H = holder(nd)
        ctx.evaluated()
        (k, h) = outcome(lambda: H(f=x))
        if k != 'ok':
            ctx.fail('constructor-accepts-typed', klass_override or nd.kind, f"T = {nd.render()[:300]}; x = {short(x, 150)}; Holder(f=x) raised {type(h).__name__}: {str(h)[:300]}")
        else:
            SKIP_EXCLUDED[0] = True
            try:
                diff = same(h.f, x)
            finally:
                SKIP_EXCLUDED[0] = False
            if diff is not None:
                ctx.fail('constructor-accepts-typed', klass_override or nd.kind, f"T = {nd.render()[:300]}; x = {short(x, 150)}; Holder(f=x).f = {short(h.f, 150)}: {diff}")


@st.composite
def cases(draw, specs: st.SearchStrategy[t.Any]) -> t.Any:
    spec = draw(specs)
    nd = tg.node(spec)
    v = tg.plainify(draw(nd.valid()))
    return [spec, v, 'valid', draw(st.booleans())]


# ---- pane.types.Range (known finding D11) --------------------------------------------------

@st.composite
def range_cases(draw) -> t.Any:
    start = draw(st.integers(-5, 5))
    n = draw(st.integers(2, 5))
    step = draw(st.integers(1, 3))
    end = start + step * (n - 1)
    form = draw(st.sampled_from(['tuple-n', 'struct-n', 'struct-step', 'ctor']))
    return [start, end, n, step, form, draw(st.sampled_from(['int', 'float']))]


def check_range(case: t.Any, ctx: Ctx) -> None:
    import pane
    from pane.types import Range
    (start, end, n, step, form, num) = case
    ctx.label(f'range:{form}')
    ctx.nontrivial(True)
    conv = float if num == 'float' else int
    T = Range[conv]
    (s, e) = (conv(start), conv(end))
    if form == 'tuple-n':
        x = pane.from_data((s, e, n), T)
    elif form == 'struct-n':
        x = pane.from_data({'start': s, 'end': e, 'n': n}, T)
    elif form == 'struct-step':
        x = pane.from_data({'start': s, 'end': e, 'step': conv(step)}, T)
    else:
        x = T(s, e, n)
    ctx.evaluated()
    (k, y) = outcome(lambda: pane.convert(x, T))
    if k != 'ok':
        ctx.fail('convert-accepts-typed', 'pane.types.Range', f"x = {x!r}; convert(x, Range[{num}]) raised {type(y).__name__}: {str(y)[:200]}")
    elif y != x:
        ctx.fail('convert-fixed-point', 'pane.types.Range', f"x = {x!r}; convert(x, Range[{num}]) = {y!r}")


# ---- fixed points under custom handlers --------------------------------------------------------------
#
# convert(x, T, custom=H) serialises x with H and parses the result with H: for a typed x it is still x, also when the
# handler's serialised form is not the value itself (ints written halved and read doubled).

HANDLER_TYPES = [('s', 'int'), ('seq', 'List', ('s', 'int')), ('seq', 'Set', ('s', 'int')), ('tup', 'Tuple', (('s', 'int'), ('s', 'str'))),
                 ('map', 'Dict', ('s', 'str'), ('s', 'int')), ('union', 'Optional', (('seq', 'List', ('s', 'int')),)), ('seq', 'TupleVar', ('s', 'int')),
                 ('seq', 'Deque', ('s', 'int')), ('map', 'Dict', ('s', 'str'), ('seq', 'List', ('s', 'int')))]


@st.composite
def handler_cases(draw) -> t.Any:
    spec = draw(st.sampled_from(HANDLER_TYPES))
    return [spec, tg.plainify(draw(tg.node(spec).valid())), draw(st.sampled_from(['double', 'triple']))]


def check_handlers(case: t.Any, ctx: Ctx) -> None:
    import pane
    from .c17 import _handlers
    (spec, v, which) = case
    H = _handlers()[which]
    nd = tg.node(spec)
    T = nd.pytype()
    ctx.label(f"handlers:{nd.kind}")
    (k, x) = outcome(lambda: pane.from_data(v, T, custom=H))
    if k != 'ok':
        ctx.exclude('value not accepted')
        return
    ctx.nontrivial(tg.is_seq(v) or tg.is_map(v))
    ctx.evaluated()
    (k, y) = outcome(lambda: pane.convert(x, T, custom=H))
    if k != 'ok':
        ctx.fail('convert-accepts-typed', f"with-handlers:{nd.kind}", f"T = {nd.render()}; custom = ints x{2 if which == 'double' else 3}; x = {short(x, 100)}; "
                 f"convert(x, T, custom=...) raised {type(y).__name__}: {str(y)[:200]}")
        return
    d = same(y, x)
    if d is not None:
        ctx.fail('convert-fixed-point', f"with-handlers:{nd.kind}", f"T = {nd.render()}; custom = ints x{2 if which == 'double' else 3}; x = {short(x, 100)}; "
                 f"convert(x, T, custom=...) = {short(y, 100)}: {d}")


# ---- compiled patterns carrying flags (known finding D72) ----------------------------------------

@st.composite
def pattern_cases(draw) -> t.Any:
    text = draw(st.sampled_from(tg.GOOD_PATTERNS))
    flags = draw(st.lists(st.sampled_from(['I', 'M', 'S', 'X', 'A']), max_size=2, unique=True))
    where = draw(st.sampled_from(['bare', 'list', 'dict-key', 'field']))
    return [text, flags, where]


def check_pattern(case: t.Any, ctx: Ctx) -> None:
    import re
    import pane
    (text, flags, where) = case
    fl = 0
    for f in flags:
        fl |= getattr(re, f)
    x = re.compile(text, fl)
    ctx.label(f"pattern-flags:{'+'.join(flags) or 'none'}", f"pattern-in:{where}")
    ctx.nontrivial(bool(flags))
    (T, val, get) = {
        'bare': (re.Pattern, x, lambda y: y),
        'list': (t.List[re.Pattern], [x], lambda y: y[0]),
        'dict-key': (t.Dict[re.Pattern, int], {x: 1}, lambda y: next(iter(y))),
        'field': (holder(tg.node(('s', 'rePattern'))), None, lambda y: y.f),
    }[where]
    ctx.evaluated()
    if where == 'field':
        (k, y) = outcome(lambda: T(f=x))
    else:
        (k, y) = outcome(lambda: pane.convert(val, T))
    if k != 'ok':
        ctx.fail('convert-accepts-typed', 'pattern-flags', f"x = {x!r} ({where}); convert raised {type(y).__name__}: {str(y)[:200]}")
        return
    got = get(y)
    if got.pattern != x.pattern or got.flags != x.flags:
        ctx.fail('convert-fixed-point', 'pattern-flags' if flags else 'pattern', f"x = {x!r} ({where}); convert gives {got!r}: the flags are lost")


def render(case: t.Any) -> t.Any:
    r = gen.render_case(case)
    r['native'] = bool(case[3])
    return r


# ---- named tuples as typed values --------------------------------------------------------------------------------------------
#
# A named-tuple value whose slots hold typed values that are not interchange data themselves (Fraction, date) is a fixed point of
# convert for its class, for a subclass that only adds behaviour, and inside containers.

_NTC: t.Dict[str, t.Any] = {}


def nt_cases(shard: int, nshards: int) -> t.Iterator[t.Any]:
    i = 0
    for cls in ('Share', 'ShareSub', 'Coord'):
        for where in ('bare', 'List', 'Dict-value', 'field', 'Optional'):
            for vi in range(3):
                if i % nshards == shard:
                    yield [cls, where, vi]
                i += 1


def check_namedtuple(case: t.Any, ctx: Ctx) -> None:
    import pane
    import datetime
    import fractions
    if not _NTC:
        _NTC['Share'] = t.NamedTuple('Share', [('owner', str), ('part', fractions.Fraction), ('since', datetime.date)])
        _NTC['ShareSub'] = type('ShareSub', (_NTC['Share'],), {'__slots__': (), 'label': lambda self: f"{self.owner}: {self.part}"})
        _NTC['Coord'] = t.NamedTuple('Coord', [('x', float), ('tags', t.FrozenSet[str])])
    (cname, where, vi) = case
    cls = _NTC[cname]
    if cname == 'Coord':
        x = [cls(1.5, frozenset({'a'})), cls(-0.0, frozenset()), cls(2.0, frozenset({'p', 'q'}))][vi]
    else:
        x = [cls('ann', fractions.Fraction(1, 3), datetime.date(2020, 5, 17)), cls('', fractions.Fraction(7), datetime.date(1, 1, 1)),
             cls('é', fractions.Fraction(-5, 2), datetime.date(9999, 12, 31))][vi]
    ctx.label(f"nt:{cname}", where)
    ctx.nontrivial(True)
    if where == 'bare':
        (T, v, get) = (cls, x, lambda r: r)
    elif where == 'List':
        (T, v, get) = (t.List[cls], [x], lambda r: r[0])
    elif where == 'Dict-value':
        (T, v, get) = (t.Dict[str, cls], {'k': x}, lambda r: r['k'])
    elif where == 'Optional':
        (T, v, get) = (t.Optional[cls], x, lambda r: r)
    else:
        if ('H', cname) not in _NTC:
            _NTC[('H', cname)] = type('NtHolder', (pane.PaneBase,), {'__annotations__': {'p': cls}})
        H = _NTC[('H', cname)]
        (T, v, get) = (H, H.make_unchecked(p=x), lambda r: r.p)
    ctx.evaluated()
    (k, r) = outcome(lambda: pane.convert(v, T))
    if k != 'ok':
        ctx.fail('convert-fixed-point', 'namedtuple:refused', f"convert of {short(x, 100)} as {cname} ({where}) raised {type(r).__name__}: {str(r)[:200]}")
        return
    y = get(r)
    if type(y) is not cls or tuple(y) != tuple(x) or any(type(a) is not type(b) for (a, b) in zip(y, x)):
        ctx.fail('convert-fixed-point', 'namedtuple', f"convert of {short(x, 100)} as {cname} ({where}) gave {short(y, 100)} (slot types {[type(a).__name__ for a in y] if isinstance(y, tuple) else type(y).__name__})")


def suites(tier: str) -> t.List[Suite]:
    big = tier == 'thorough'
    leaves = 8 if big else 4
    return [
        Suite('fixedpoint', check, strategy=lambda: cases(gen.all_type_specs(leaves)), examples=8000 if big else 600,
              budget_s=480 if big else 40, render=render),
        Suite('with-handlers', check_handlers, strategy=handler_cases, examples=1500 if big else 120, budget_s=60 if big else 10,
              render=lambda c: {'type': tg.node(c[0]).render(), 'value': short(c[1], 100), 'handler': c[2]}),
        Suite('pattern-flags', check_pattern, strategy=pattern_cases, examples=400 if big else 40, budget_s=60 if big else 10,
              render=lambda c: {'pattern': c[0], 'flags': c[1], 'where': c[2]}),
        Suite('overlap-unions', check, strategy=lambda: cases(gen.overlap_union_specs()), examples=4000 if big else 450, budget_s=300 if big else 30, render=render),
        Suite('namedtuple', check_namedtuple, cases=nt_cases, exhaustive=True, budget_s=30, render=lambda c: {'class': c[0], 'where': c[1], 'value': c[2]}),
        Suite('range', check_range, strategy=range_cases, examples=300 if big else 40, budget_s=60),
    ]
