"""
C08  Error messages are total and complete.

Trees come from real failed conversions (the C07 generator), with field names
and exception messages that are unlikely to occur by accident.  Oracle over the
rendered text: rendering returns (str(err), str(err.tree)), twice the same, and
the same for a deep copy; every root-to-leaf path's components occur in nesting
order followed by the leaf's expectation; every missing / unexpected /
duplicated field name occurs; every leaf outside a sum shows its actual value
and every sum shows one; a cause's exception message occurs.  Wording and
layout are not asserted.
"""

from __future__ import annotations

import copy
import typing as t

from hypothesis import strategies as st

from ..core import Suite, Ctx, triage_exception
from .. import tg, gen
from ..codec import short
from ..oracles import outcome
from ..errtree import tree_stats, contains_itself
from .c07 import multi_fault_cases

ID = 'C08'
RULE = ("Hypothesis: every error tree produced by the C07 generator (so: reachable trees only). Non-trivial = the tree has depth >= 3, "
        "or contains a sum inside a product inside a sum, a cause, a duplicate-key node, or missing/extra fields; distinct by (type spec, value).")
ASSUMPTIONS = [
    "determinism: rendering twice and rendering a deep copy within one process; batches of failing conversions are also rendered in fresh interpreters under two other PYTHONHASHSEED values",
    "integers are bounded to 1000 digits (CPython refuses to print larger ones)",
]


def find_in_order(text: str, parts: t.Sequence[str]) -> t.Optional[str]:
    pos = 0
    for p in parts:
        i = text.find(p, pos)
        if i < 0:
            return p
        pos = i + len(p)
    return None


def find_path(text: str, path: t.Sequence[str], then: t.Optional[str] = None) -> t.Optional[str]:
    """Path components must occur in nesting order *as field names*: each is delimited by a quote or a dot
    (the renderer prints "field 'a.b.c'"), optionally followed by ``then``."""
    import re
    pos = 0
    for comp in path:
        m = re.compile(r"(?<=['.])" + re.escape(comp) + r"(?=['.])").search(text, pos)
        if m is None:
            return comp
        pos = m.end()
    if then is not None and text.find(then, pos) < 0:
        return then
    return None


def alternatives(tree: t.Any) -> int:
    """Number of '- ' bullets a complete rendering must contain: one per (flattened) alternative of every sum."""
    from pane.errors import ProductErrorNode, SumErrorNode
    if isinstance(tree, SumErrorNode):
        n = 0
        for c in tree.children:
            if isinstance(c, SumErrorNode):
                # nested sums are flattened one level by the renderer
                for cc in c.children:
                    n += 1 + (alternatives(cc) if not isinstance(cc, SumErrorNode) else alternatives(cc))
            else:
                n += 1 + alternatives(c)
        return n
    if isinstance(tree, ProductErrorNode):
        return sum(alternatives(c) for c in tree.children.values())
    return 0


def check(case: t.Any, ctx: Ctx) -> None:
    import pane
    from pane.errors import ProductErrorNode, SumErrorNode, DuplicateKeyError, WrongLenError
    (spec, v, how) = case[:3]
    nd = tg.node(spec)
    T = nd.pytype()
    try:
        pane.from_data(v, T)
        ctx.label('accepted')
        return
    except pane.ConvertError as e:
        err = e
    except Exception:
        ctx.exclude('another exception escaped (C04)')
        return
    tree = err.tree
    if contains_itself(tree):
        ctx.fail('render-total', 'tree-contains-itself', f"T = {nd.render()[:300]}; v = {short(v, 200)}; a node of the error tree is among its own descendants: "
                 "rendering it cannot end")
        return
    st_ = tree_stats(tree)
    ctx.label('rendered', f"treedepth:{min(st_['depth'], 6)}", *(k for k in ('sum', 'cause', 'dup', 'missing', 'extra', 'sum_in_product_in_sum') if st_[k]))
    ctx.nontrivial(st_['depth'] >= 3 or st_['sum_in_product_in_sum'] or st_['cause'] or st_['dup'] or st_['missing'] or st_['extra'])
    ident = f"T = {nd.render()[:300]}; v = {short(v, 200)}"

    # total
    ctx.evaluated()
    try:
        text = str(err)
        text2 = str(err.tree)
        again = str(err)
    except RecursionError:
        raise
    except Exception as e:
        k = triage_exception(e) or type(e).__name__
        ctx.fail('render-total', k, f"{ident}; rendering the error raised {type(e).__name__}: {str(e)[:200]}")
        return
    if text != again or text != text2:
        ctx.fail('render-deterministic', nd.kind, f"{ident}; two renderings differ")
    # rendering must leave the tree as it was: compare with the tree of the same failure obtained afresh
    try:
        pane.from_data(v, T)
    except pane.ConvertError as e2:
        from ..errtree import tree_eq
        d_ = tree_eq(tree, e2.tree)
        if d_ is not None:
            ctx.fail('render-pure', nd.kind, f"{ident}; after str(err) the tree differs from the tree of the same failure taken afresh: {d_}")
            return
    except Exception:
        pass
    try:
        clone = copy.deepcopy(tree)
    except Exception:
        clone = None
    if clone is not None:
        try:
            tc = str(clone)
        except Exception as e:
            ctx.fail('render-total', type(e).__name__, f"{ident}; rendering a deep copy of the tree raised {type(e).__name__}")
            return
        if tc != text:
            ctx.fail('render-deterministic', nd.kind, f"{ident}; a deep copy of the tree renders differently")

    # complete
    UNKNOWN = object()

    def walk(n: t.Any, path: t.Tuple[str, ...], in_sum: bool, val: t.Any = UNKNOWN) -> t.Optional[str]:
        ctx.evaluated()
        if isinstance(n, SumErrorNode):
            if not in_sum and val is not UNKNOWN:
                # the value the union was given (not one of its parts, which a member's leaf may hold) is the offending value
                try:
                    line = f"Instead got `{val}` of type `{type(val).__name__}`"
                except Exception:
                    line = None
                if line is not None and line not in text:
                    return (f"the union at {'.'.join(path) or '<root>'} was given {short(val, 80)}, but no line {line[:100]!r} "
                            f"is in the text")
            for c in n.children:
                r = walk(c, path, True)
                if r:
                    return r
            return None
        if isinstance(n, DuplicateKeyError):
            miss = find_in_order(text, [*path[:-1], str(n.key)])
            return f"duplicate key {n.key!r} under path {path} is not named (missing {miss!r})" if miss else None
        exp = str(n.expected)
        # the statement asks for the expectation of every *leaf*; intermediate products may be fused into 'a.b.c'.
        # A product without children (it only lacks fields / has unknown keys) is a leaf of the tree: what was expected there must be said.
        is_inner = isinstance(n, ProductErrorNode) and len(n.children) > 0
        miss = find_path(text, path) if is_inner else find_path(text, path, exp)
        if miss is not None:
            return f"path {'.'.join(path) or '<root>'} with expectation {exp!r}: {miss!r} does not occur in nesting order"
        if isinstance(n, ProductErrorNode):
            for f in n.missing:
                name = f if isinstance(f, str) else '/'.join(f)
                if find_in_order(text, [*path, name]) is not None:
                    return f"missing field {name!r} under {'.'.join(path) or '<root>'} is not named"
            for f in n.extra:
                if find_in_order(text, [*path, str(f)]) is not None:
                    return f"unexpected field {f!r} under {'.'.join(path) or '<root>'} is not named"
            for (k, c) in n.children.items():
                sub = UNKNOWN
                a = n.actual
                try:
                    # (a child of a mapping node may report the *key* or the value: only positions of a sequence are unambiguous)
                    if isinstance(a, (list, tuple)) and isinstance(k, int) and 0 <= k < len(a):
                        sub = a[k]
                except Exception:
                    sub = UNKNOWN
                r = walk(c, (*path, str(k)), False, sub)
                if r:
                    return r
            return None
        # leaf
        if not in_sum:
            try:
                shown = str(n.actual)
            except Exception:
                shown = None
            if shown is not None and find_in_order(text, [*path, shown]) is not None:
                return f"leaf at {'.'.join(path) or '<root>'} does not show the offending value {shown[:60]!r}"
        cause = getattr(n, 'cause', None)
        if cause is not None:
            msg = ''.join(cause.format_exception_only()).strip().splitlines()[-1] if cause else ''
            if msg and msg not in text:
                return f"leaf at {'.'.join(path) or '<root>'} has a cause whose message {msg[:80]!r} is not in the text"
        return None

    r = walk(tree, (), False, v)
    if r is not None:
        ctx.fail('render-complete', nd.kind, f"{ident}; {r}\n--- text ---\n{text[:600]}")
        return
    import re as _re
    bullets = len(_re.findall(r'^\s*- ', text, flags=_re.M))
    need = alternatives(tree)
    if bullets < need:
        ctx.fail('render-complete', 'alternatives', f"{ident}; the tree has {need} union alternatives, the text lists only {bullets}\n--- text ---\n{text[:600]}")
        return
    if isinstance(tree, SumErrorNode) or st_['sum']:
        # every sum shows one offending value
        if 'Instead got' not in text and 'instead got' not in text:
            ctx.fail('render-complete', nd.kind, f"{ident}; a sum is rendered without any offending value\n{text[:400]}")


# ---- the same failure renders to the same text in every interpreter run -----------------------------------------------
#
# str hashes differ between interpreter runs (PYTHONHASHSEED), and with them the iteration order of every set of names.
# A batch of generated failing conversions is rendered here and in fresh interpreters started with other hash seeds;
# type, value and code being equal, the message must be equal.

@st.composite
def batch_cases(draw, specs: st.SearchStrategy[t.Any]) -> t.Any:
    return [draw(multi_fault_cases(specs)) for _ in range(20)]


def _many_names(case: t.Any) -> bool:
    from ..errtree import own_tree
    from pane.errors import ProductErrorNode

    def walk(tr: t.Any) -> bool:
        if isinstance(tr, ProductErrorNode):
            return len(tr.missing) >= 2 or len(tr.extra) >= 2 or any(walk(c) for c in tr.children.values())
        return any(walk(c) for c in getattr(tr, 'children', []) or []) if isinstance(getattr(tr, 'children', None), list) else False
    try:
        tr = own_tree(tg.node(case[0]), case[1])
    except Exception:
        return False
    return tr is not None and walk(tr)


def check_batch(batch: t.Any, ctx: Ctx) -> None:
    from .. import hashseed
    here = hashseed.render_batch(batch)
    rejected = [i for (i, x) in enumerate(here) if x is not None]
    ctx.label(f"batch-rejected:{min(len(rejected) // 5 * 5, 20)}")
    ctx.nontrivial(any(_many_names(batch[i]) for i in rejected))
    if not rejected:
        return
    for hs in (101, 202):
        there = hashseed.render_elsewhere(batch, hs)
        ctx.evaluated(len(rejected))
        for i in rejected:
            if there[i] != here[i]:
                a = (here[i] or '').splitlines()
                b = (there[i] or '<accepted>').splitlines()
                diff = next(((x, y) for (x, y) in zip(a, b) if x != y), (a[-1:] or [''], b[-1:] or ['']))
                klass = 'set-of-names-order' if sorted(a) == sorted(b) else 'content'
                ctx.fail('deterministic', f"across-hash-seeds:{klass}",
                         f"T = {tg.node(batch[i][0]).render()[:300]}; v = {short(batch[i][1], 150)}; the message differs between two interpreter runs "
                         f"(PYTHONHASHSEED {hs} vs this one): first differing line {diff[0]!r} vs {diff[1]!r}", case=[batch[i]])
                return


# ---- offending values that are expensive or impossible to print -----------------------------------------------------------------
#
# "Rendering ... never raises": the offending value is shown with str(); an int of more than 4300 digits (legitimate interchange
# data: JSON and YAML hold integers of any size) makes str() raise ValueError in CPython >= 3.11.  The case holds the exponent, not
# the number (the replay file stays small and printable).

_HUGE_TYPES = ['str', 'List[str]', 'Dict[str, str]', 'Tuple[str, int]', 'float', 'Optional[str]', "Literal['a']", 'Set[str]', 'struct', 'dataclass']
_HUGE_PLACES = ['itself', 'in-list', 'in-dict-value', 'in-nested-list', 'as-dict-key']


def huge_cases(shard: int, nshards: int) -> t.Iterator[t.Any]:
    i = 0
    for ty in _HUGE_TYPES:
        for place in _HUGE_PLACES:
            for exp in (4299, 5000, 20000):
                for sign in (1, -1):
                    if i % nshards == shard:
                        yield [ty, place, exp, sign]
                    i += 1


def check_huge(case: t.Any, ctx: Ctx) -> None:
    import pane
    (tname, place, exp, sign) = case
    if 'cls' not in _HUGE_CACHE:
        _HUGE_CACHE['cls'] = type('HugeHolder', (pane.PaneBase,), {'__annotations__': {'a': str, 'b': t.List[str]}})
    T = {'struct': {'a': str, 'b': int}, 'dataclass': _HUGE_CACHE['cls']}.get(tname) or eval(tname, {**vars(t)})
    n = sign * 10**exp
    v = {'itself': n, 'in-list': ['a', n], 'in-dict-value': {'a': n, 'b': n}, 'in-nested-list': [[n]], 'as-dict-key': {n: 'a'}}[place]
    ctx.label(f"digits:{exp + 1}", place)
    ctx.nontrivial(exp + 1 > 4300)
    ctx.evaluated()
    (k, e) = outcome(lambda: pane.from_data(v, T))
    if k == 'ok':
        return         # (float accepts ints below its range: not this check's subject)
    if k != 'ce':
        return         # (C04's subject)
    for (what, f) in (('str', str), ('str again', str)):
        (k2, text) = outcome(lambda: f(e))
        if k2 != 'ok':
            ctx.fail('render-total', f"huge-int:{type(text).__name__}", f"from_data(<{'-' if sign < 0 else ''}10**{exp} {place}>, {tname}) raised ConvertError, and "
                     f"str() of it raised {type(text).__name__}: {str(text)[:150]}")
            return
    if not isinstance(text, str) or 'xpected' not in text:
        ctx.fail('render-total', 'huge-int:no-expectation', f"from_data(<10**{exp} {place}>, {tname}): the message names no expectation: {text[:200]!r}")


_HUGE_CACHE: t.Dict[str, t.Any] = {}


# ---- field names that are not text ---------------------------------------------------------------------------------------------
#
# Struct types keyed by ints (and mappings generally) are converted like any other; a missing, unexpected or duplicated name that is
# not a str must be named in the text like one that is.

def oddname_cases(shard: int, nshards: int) -> t.Iterator[t.Any]:
    for (i, c) in enumerate(['missing-int-name', 'missing-bytes-name', 'extra-int-name', 'child-int-name', 'duplicate-with-int-alias', 'missing-with-int-alias']):
        if i % nshards == shard:
            yield [c]


def check_oddnames(case: t.Any, ctx: Ctx) -> None:
    import pane
    (name,) = case
    ctx.label(name)
    ctx.nontrivial(True)
    if 'D' not in _HUGE_CACHE:
        _HUGE_CACHE['D'] = type('IntAlias', (pane.PaneBase,), {'__annotations__': {'first': int, 'second': int}, 'first': pane.field(aliases=[1]), 'second': pane.field(aliases=[2])})
    D = _HUGE_CACHE['D']
    (T, v, want) = {
        'missing-int-name': ({'name': str, 1: int, 2: int}, {'name': 'x', 1: 10}, '2'),
        'missing-bytes-name': ({'name': str, b'k': int}, {'name': 'x'}, 'k'),
        'extra-int-name': ({'name': str}, {'name': 'x', 7: 1}, '7'),
        'child-int-name': ({'name': str, 1: int}, {'name': 'x', 1: 'bad'}, '1'),
        'duplicate-with-int-alias': (D, {1: 5, 'first': 6, 'second': 1}, 'first'),
        'missing-with-int-alias': (D, {1: 5}, 'second'),
    }[name]
    ctx.evaluated()
    (k, e) = outcome(lambda: pane.from_data(v, T))
    if k != 'ce':
        return      # (whether such a type / value is taken is not this check's subject)
    (k2, text) = outcome(lambda: str(e))
    if k2 != 'ok':
        ctx.fail('render-total', f"odd-name:{type(text).__name__}", f"{name}: from_data({v!r}, {T!r}) raised ConvertError, and str() of it raised {type(text).__name__}: {str(text)[:150]}")
    elif want not in text:
        ctx.fail('render-complete', 'odd-name', f"{name}: the text does not name {want!r}: {text[:300]!r}")


# ---- a field given twice, whatever else is wrong with the entries -----------------------------------------------------------------
#
# "every ... duplicated field": decided from the *data* (the field is given under two of its input names), not from the tree - so a tree
# which forgot the duplicate is seen.  The first and the second value are, independently, good or bad; other problems sit beside it.

DUP_NAMING = ['aliases', 'in_names', 'class-in_rename']


def dupdata_cases(shard: int, nshards: int) -> t.Iterator[t.Any]:
    i = 0
    for naming in DUP_NAMING:
        for first_ok in (True, False):
            for second_ok in (True, False):
                for others in ('none', 'missing', 'extra', 'bad-sibling'):
                    for where in ('bare', 'List', 'field'):
                        if i % nshards == shard:
                            yield [naming, first_ok, second_ok, others, where]
                        i += 1


def check_dupdata(case: t.Any, ctx: Ctx) -> None:
    import pane
    (naming, first_ok, second_ok, others, where) = case
    key = ('dupdata', naming)
    if key not in _HUGE_CACHE:
        if naming == 'aliases':
            C = type('Conn', (pane.PaneBase,), {'__annotations__': {'host_name': str, 'port': int, 'tag': str},
                                                'host_name': pane.field(aliases=['host', 'hostname'])})
            names = ('host_name', 'host')
        elif naming == 'in_names':
            C = type('Conn', (pane.PaneBase,), {'__annotations__': {'host_name': str, 'port': int, 'tag': str},
                                                'host_name': pane.field(in_names=['host', 'hostname'])})
            names = ('hostname', 'host')
        else:
            C = type('Conn', (pane.PaneBase,), {'__annotations__': {'host_name': str, 'port': int, 'tag': str}}, in_rename=('snake', 'camel'))
            names = ('host_name', 'hostName')
        Outer = type('Outer', (pane.PaneBase,), {'__annotations__': {'conn': C}})
        _HUGE_CACHE[key] = (C, Outer, names)
    (C, Outer, (n1, n2)) = _HUGE_CACHE[key]
    ctx.label(f"duplicate:{naming}", f"first-{'ok' if first_ok else 'bad'}", f"second-{'ok' if second_ok else 'bad'}", others, where)
    ctx.nontrivial(not first_ok or others != 'none')
    d: t.Dict[str, t.Any] = {n1: 'a' if first_ok else 5, 'port': 80 if others != 'bad-sibling' else 'eighty', n2: 'b' if second_ok else [None]}
    if others != 'missing':
        d['tag'] = 't'
    if others == 'extra':
        d['colour'] = 1
    (T, v) = {'bare': (C, d), 'List': (t.List[C], [d]), 'field': (Outer, {'conn': d})}[where]
    ctx.evaluated()
    (k, e) = outcome(lambda: pane.from_data(v, T))
    ident = f"class Conn(host_name: str [{naming}: also {n2!r}], port: int, tag: str); from_data({v!r}, {where})"
    if k != 'ce':
        ctx.fail('render-complete', f"duplicate-in-data:{'accepted' if k == 'ok' else type(e).__name__}", f"{ident}: {k} {short(e, 150)}; a field given twice is refused with ConvertError")
        return
    text = str(e)
    if not any('uplicate' in line and n2 in line for line in text.splitlines()):
        ctx.fail('render-complete', 'duplicate-in-data', f"{ident}: the data gives field host_name a second time under {n2!r}, but no line of the text says so: {text[:400]!r}")


def suites(tier: str) -> t.List[Suite]:
    big = tier == 'thorough'
    leaves = 8 if big else 4
    return [
        Suite('render', check, strategy=lambda: multi_fault_cases(gen.all_type_specs(leaves)), examples=8000 if big else 600,
              budget_s=480 if big else 40, render=gen.render_case),
        Suite('huge-ints', check_huge, cases=huge_cases, exhaustive=True, budget_s=120,
              render=lambda c: {'type': c[0], 'where': c[1], 'value': f"{'-' if c[3] < 0 else ''}10**{c[2]}"}),
        Suite('duplicates-in-data', check_dupdata, cases=dupdata_cases, exhaustive=True, budget_s=60,
              render=lambda c: {'naming': c[0], 'first value ok': c[1], 'second value ok': c[2], 'beside it': c[3], 'where': c[4]}),
        Suite('odd-names', check_oddnames, cases=oddname_cases, exhaustive=True, budget_s=30, render=lambda c: {'case': c[0]}),
        Suite('across-hash-seeds', check_batch, strategy=lambda: batch_cases(gen.all_type_specs(leaves)), examples=40 if big else 4,
              budget_s=300 if big else 30, render=lambda b: {'batch_of': len(b), 'first': gen.render_case(b[0])}),
    ]
