"""
Prepare a round of independent sub-agents:   python -m pv.seedprompts <dir> [seed|audit] [IDs...]

For each property a scratch git worktree of /repo is created at <dir>/<ID> (outside /repo and /verif) and a prompt file
<dir>/<ID>.agent.txt is written.  The prompt contains only the text of the property, the environment notes, and (for
seeding rounds) one-line summaries of the changes already seeded, so that a new agent looks elsewhere.  Nothing from
/verif's checks is handed over.

  seed   the agent makes one realistic source change that breaks the property (patch.diff, demo.py, meta.json)
  audit  the agent looks for an input / program on the UNCHANGED code that violates the property (repro.py, finding.json)
"""

from __future__ import annotations

import json
import os
import subprocess
import sys

ROOT = os.path.dirname(os.path.dirname(os.path.abspath(__file__)))

ENV_NOTE = """You are helping evaluate a verification effort for the Python library "pane" (hexane360/pane: type-directed conversion between JSON/YAML-style interchange data and typed Python values, plus a dataclass library). A git worktree of the library is at {wt} (library source in {wt}/pane, tests in {wt}/tests, docs in {wt}/docs). Work ONLY inside {wt}. Do not read or write anything under /verif or /repo.

IMPORTANT environment note: the `pane` package is installed in /venv in editable mode pointing at a DIFFERENT directory, so always run Python with PYTHONPATH={wt} so that your worktree is what gets imported, e.g.
    cd {wt} && PYTHONPATH={wt} /venv/bin/python -c "import pane; print(pane.__file__)"     # must print a path under {wt}
    cd {wt} && PYTHONPATH={wt} /venv/bin/python -m pytest -q -p no:cacheprovider            # baseline result: "9 failed, 218 passed" (the 9 numpy NDArray failures pre-exist and are expected)
A script that sits next to the `pane` directory imports that copy whatever PYTHONPATH says (the script's directory comes first on sys.path): in demo / repro scripts, move the PYTHONPATH entries to the front of sys.path before importing pane, and print pane.__file__.
"""

SEED_TASK = """Your task: make ONE realistic source change to the library (in {wt}/pane/*.py) that BREAKS this property, in the way a plausible bug would be introduced by a maintainer (a refactoring slip, an optimisation, an off-by-one, a wrong condition, a missed case, two sites that each look fine alone, a cache keyed slightly wrong, ...). Requirements:

1. The library must still import, and the existing test suite must give exactly the same result as the baseline ("9 failed, 218 passed") with your change applied.
2. The breakage must need something SPECIFIC to manifest - a particular kind of input, a particular type shape or nesting, a multi-step sequence of operations, a particular configuration of class options, an unusual but legitimate value - NOT something that ordinary use (or a glance at a simple example) would expose at once. Prefer subtle over blunt. Do not special-case a magic constant like `if x == 12345`; the change should look like honest code.
3. Keep the change small (a few lines, at most ~15).
4. Write {wt}/demo.py: a small standalone program that exits with a non-zero status (e.g. an assertion failure) WITH your change applied and exits 0 WITHOUT it. It should print what it observed. Run it both ways to confirm: with the change (PYTHONPATH={wt}), and against the original code - for the latter do NOT use git stash (the stash is shared between worktrees and other people are working in sibling worktrees); instead export the original sources with `mkdir -p /tmp/orig_$$ && git -C {wt} archive HEAD pane | tar -x -C /tmp/orig_$$` and run the demo with PYTHONPATH pointing at that directory, then delete it.
5. Write the diff of your change to {wt}/patch.diff  (git -C {wt} diff -- pane > {wt}/patch.diff). Do not commit anything.
6. Write {wt}/meta.json with keys: "property" (the id {pid}), "summary" (one or two sentences: what was changed), "needs" (what specific input / sequence / configuration is needed for the breakage to manifest), "files" (list of changed files).

Finish by reporting: the diff, the demo output with and without the change, and the test-suite summary line with the change. If, while reading the code, you notice that the UNCHANGED library already violates the property for some input, say so at the end with the exact input (this is valuable)."""

AUDIT_TASK = """Your task: AUDIT the unchanged library against this property. Do NOT modify anything under {wt}/pane. Read the code the property is about, think about where it could be violated, and try concrete inputs until you either find a violation or have covered the risky places. Look especially at: rarely used public API and options, interactions of two features, unusual but legitimate values (empty containers, negative zero, NaN, huge ints, non-ASCII text, bytes vs bytearray, subclasses of builtin types, Mapping/Sequence implementations that are not dict/list, defaultdict, OrderedDict), state kept between calls (caches, class-level tables), behaviour that differs between interpreter runs (PYTHONHASHSEED), and what the documentation in {wt}/docs promises.

Deliberately OUT of scope, already known (do not report these): (a) a dataclass with out_format='tuple' emits keyword-only fields that tuple input refuses; (b) pane.types.Range instances do not survive convert(); (c) an internally tagged union whose tag field is renamed for output cannot re-read its output; (d) a ValueOrList member of an untagged union next to a member accepting any object; (e) bool given where a number is expected is accepted (documented Python semantics); (f) values that merely == a Literal / enum value / tag of another type (1.0 vs 1, True vs 1) are accepted; (g) the python field name is accepted as a mapping key even when other input names are configured; (h) numpy.typing.NDArray[...] is unsupported on this numpy version; (i) which entry wins when two mapping keys convert to the same typed key; (j) a mapping entry whose key AND value are both bad reports only one of the two in the error tree; (k) a dataclass with eq=False, order=True has comparison operators that are not a trichotomy; (l) convert() of a compiled regular expression drops its flags; (m) a field declared init=False appears in into_data output and the output is then refused as input; (n) instances of user subclasses of int / str / float / date given as input data (whether they are accepted is unspecified).

Also already known and NOT to be reported again (a THIRD pass: two earlier passes reported these, about ninety defects were repaired): (o) tuple output with an excluded or keyword-only field does not line up with tuple input; `out_format` not among `in_format`; (p) untagged-union ambiguity after serialisation (`Union[str, Decimal]`, `Union[Base, Derived]` written by Base), `convert()` at `Any` positions returns the serialised form; (q) PEP 604 `int | None`, `NewType`, `ClassVar`, `Final`, `TypedDict`, classes derived from parameterised containers, `Literal[<enum member>]`, Enum-valued tags, generic `NamedTuple[T]`, `Generic[T]` listed before `PaneBase`, PEP 695 classes under `from __future__ import annotations` are unsupported forms; (r) externally / adjacently tagged unions report the variant's tree without a level for the tag key, the internally tagged missing-tag leaf holds a dict copy, set members are keyed by iteration position; (s) `dict(set_only=True)` includes excluded fields and follows set order, `copy()` re-runs `__post_init__`, plain mutable defaults are shared, fields named `self` / `cls`; (t) passed handlers are called with an empty `ConverterHandlers()`, conditions inside a union member take part in choosing the member on output, struct-type dicts or `field()` objects mutated / shared after first use, `FieldSpec(compare=False)`; (u) documentation slips (`in_format` default, the Converter example in advanced.md that is not a Converter subclass, the unused `name=` option, `in_names` 'excludes' the python name); (v) `pane.types.Range` in every form; letters without one-to-one case mapping and digits in renamed field names; binary streams given to the io functions; RecursionError on very deep or self-referential data; ints of more than 4300 digits inside Enum / Literal *types*; `range(10**30)`; pickling; typing's own subscription cache reordering a type the USER wrote with `typing.List[...]` / `Optional[...]` (only orders that pane itself loses count).

This is a THIRD auditing pass: an earlier pass already examined the obvious places (scalar conversions, optional/union basics, simple dataclasses, simple error messages) and about ninety defects were repaired since. Spend your effort on what is left: the io module (from_json / from_yaml / write_* with every option, encodings, newline handling, multi-document streams), the numpy addon, pane.types (ValueOrList, the numeric aliases), datetime / time zones / paths / patterns, Decimal / Fraction edge values, very small corner cases of the error text, concurrency (threads), and on deeper combinations: three features at once, nested generics, inheritance chains of dataclasses with differing class options, tagged unions inside containers inside dataclasses, custom converters / handlers combined with everything else, conditions on container types, the less common typing forms (Annotated nested twice, NewType, TypeVar with constraints, Final, ClassVar, Optional of Literal, Tuple[()] and Tuple[T, ...], collections.abc forms, PEP 604 unions, typing.Required / NotRequired where supported), YAML-specific input (anchors, merge keys, multi-document streams, tags), and long sequences of API calls on the same class objects.

For every violation you can demonstrate:
1. Write {wt}/repro_<n>.py: a small standalone program that prints what it observes and exits NON-ZERO while the violation is present (and would exit 0 once it is repaired).
2. Add an entry to {wt}/findings.json (a JSON list) with keys: "property" ({pid}), "title", "input" (the exact type / value / call sequence), "observed", "expected" (quote the clause of the property it contradicts), "where" (file:line of the code responsible), "suggested_fix" (a sentence).
If you find nothing, write an empty list to {wt}/findings.json and report which areas you examined and which inputs you tried.

Be strict about what counts: the behaviour must contradict the text of the property above (or the documentation it refers to), not merely surprise you. Finish by reporting your findings (or the absence of any) concisely."""

FOCUS = ("Prefer changes of these kinds, which have been under-explored so far: (1) state that survives between calls and shows only in a later call "
         "(something stored on a converter, a class, a module-level table; an iterator consumed once; a default evaluated once); (2) behaviour that differs "
         "between interpreter runs or depends on iteration order of a set / dict; (3) rarely used public API: pane.types (Range, ValueOrList, the numeric / "
         "length aliases), field(converter=...), from_obj / into_data with explicit types, dict(set_only=...), __replace__, from_yaml_all, register_converter_handler, "
         "Condition.all / any with names, Tagged(external=(t, c)); (4) the interaction of two features (generics x class options, inheritance x keyword-only x "
         "tuple layout, tagged unions inside containers or as mapping values, custom handlers x tagged unions, exclude x positional layout, numpy arrays x "
         "conditions, datetime / path / pattern types as mapping keys or set elements); (5) error reporting rather than acceptance (the tree or the text is wrong "
         "while the verdict stays right); (6) the serialisation direction rather than parsing. (7) places repaired recently, where a slip would be easy: ordering of dataclasses (`_make_ord`), `__setattr__` / the set-field record, "
         "`_annotated_converter`, `errors._show` and the union error node, `util._subscript` / `replace_typevars`, the converter cache key, "
         "`EnumConverter.into_data`, the `into_data` shortcut for scalars, named tuples in `make_converter`, `UnionConverter.into_data`'s fallback, "
         "`ConverterHandlers.make`, the numpy addon's array constructors, `DatetimeConverter.from_datetime`, `WrongTypeError.__eq__`, `_make_eq` / `_compare`, `into_data`'s fallbacks in convert.py, named tuples, `UnionConverter.try_convert`, `try_convert_struct`'s defaults, `errors.ProductErrorNode.print_error`. Read the code you change carefully and make sure the existing 218 tests really still pass.")


def used_ideas() -> list:
    out = []
    sd = os.path.join(ROOT, 'seeded')
    for name in sorted(os.listdir(sd)):
        mp = os.path.join(sd, name, 'meta.json')
        if os.path.exists(mp):
            m = json.load(open(mp))
            out.append('- ' + str(m.get('summary', ''))[:200].replace('\n', ' '))
    return out


def main() -> int:
    (d, mode) = (sys.argv[1], sys.argv[2] if len(sys.argv) > 2 else 'seed')
    ids = sys.argv[3:] or [f"C{i:02d}" for i in range(1, 21)]
    os.makedirs(d, exist_ok=True)
    props = {}
    for ln in open(os.path.join(ROOT, 'properties.jsonl')):
        p = json.loads(ln)
        props[p['id']] = p
    ideas = used_ideas()
    for pid in ids:
        wt = os.path.join(d, pid)
        if not os.path.exists(wt):
            r = subprocess.run(['git', '-C', '/repo', 'worktree', 'add', '--detach', wt, 'HEAD'], capture_output=True, text=True)
            if r.returncode != 0:
                print(pid, 'worktree failed:', r.stderr[-300:])
                continue
        p = props[pid]
        text = ENV_NOTE.format(wt=wt) + "\nHere is a semantic property the library is supposed to satisfy:\n\n---\n" + p['title'] + "\n\n" + p['statement'] + \
            "\n\nQuantified over: " + p['quantifier']['text'] + "\n"
        if mode == 'seed':
            text += "\nIdeas that have ALREADY been used (for this and other properties) - do NOT reuse them nor a close variant; find a different mechanism in a different part of the code:\n" + \
                '\n'.join(ideas) + "\n\n" + FOCUS + "\n---\n\n" + SEED_TASK.format(wt=wt, pid=pid)
        else:
            text += "---\n\n" + AUDIT_TASK.format(wt=wt, pid=pid)
        open(os.path.join(d, f"{pid}.agent.txt"), 'w').write(text)
        print(pid, 'ready:', wt)
    return 0


if __name__ == '__main__':
    sys.exit(main())
