"""
Self-check of the reference interpreter against the examples the repository's
own tests pin (tests/test_converters.py::test_convert, test_pane.py).  A
disagreement means the *reference* is wrong: it is a harness error (exit 2),
never a verdict about pane.  Run once per worker by the checks that rely on
the reference (C01).
"""

from __future__ import annotations

import collections
import datetime
import decimal
import fractions
import pathlib
import re
import typing as t

from . import tg
from .core import HarnessError
from .same import same

S = lambda n: ('s', n)  # noqa: E731
OK, CE = 'ok', 'ce'

# (type spec, value, expected verdict, expected image or None) - transcribed from tests/test_converters.py
EXAMPLES: t.List[t.Tuple[t.Any, t.Any, str, t.Any]] = [
    (S('int'), 's', CE, None),
    (S('float'), 5, OK, 5.0),
    (S('complex'), 6, OK, 6.0 + 0j),
    (S('bytes'), b'bytestring', OK, b'bytestring'),
    (S('str'), b'bytestring', CE, None),
    (S('bytes'), 'string', CE, None),
    (S('bytearray'), b'bytestring', OK, bytearray(b'bytestring')),
    (S('bytes'), bytearray(b'bytestring'), OK, b'bytestring'),
    (('seq', 'List', S('int')), bytearray(b'bytestring'), CE, None),
    (S('bytearray'), [98, 121], CE, None),
    (('seq', 'TupleVar', S('int')), [1, 2], OK, (1, 2)),
    (('seq', 'Sequence', S('int')), [1, 2], OK, (1, 2)),
    (('seq', 'List', S('int')), (1, 2), OK, [1, 2]),
    (('seq', 'Set', S('float')), (1, 2, 3), OK, {1., 2., 3.}),
    (('seq', 'deque_bare'), (1, 2, 3), OK, collections.deque((1, 2, 3))),
    (('seq', 'MutableSet', S('int')), (1, 2, 3), OK, {1, 2, 3}),
    (('map', 'Dict', S('str'), S('float')), {'a': 1}, OK, {'a': 1.0}),
    (('map', 'abcMapping', S('str'), S('float')), {'a': 1}, OK, {'a': 1.0}),
    (('map', 'MutableMapping', S('str'), S('str')), {'a': 'b'}, OK, {'a': 'b'}),
    (('map', 'Counter', S('str')), {'a': 5, 'b': 1, 'c': 2}, OK, collections.Counter('aaaaabcc')),
    (('map', 'defaultdict_bare'), {'a': 'b'}, OK, collections.defaultdict(None, {'a': 'b'})),
    (('tup', 'Tuple', (S('str'),)), ['int'], OK, ('int',)),
    (('tup', 'Tuple', (S('str'),)), ('s1', 's2'), CE, None),
    (('union', 'Union', (S('int'), S('float'), S('str'))), 5., OK, 5.),
    (('union', 'Union', (S('str'), S('float'), S('int'))), 5, OK, 5.),
    (('struct', (('x', S('int')), ('y', S('float')))), {'x': 5, 'y': 4}, OK, {'x': 5, 'y': 4.}),
    (('struct', (('x', ('union', 'Union', (S('str'), S('int')))), ('y', ('tup', 'Tuple', (('union', 'Union', (S('str'), S('int'))), S('int')))))),
     {'x': 5., 'y': (0., 's')}, CE, None),
    (('ann', S('int'), (('val_range', 0, None),)), 0, OK, 0),
    (('ann', S('int'), (('val_range', 0, None),)), -1, CE, None),
    (('ann', S('float'), (('val_range', 0, 5),)), 5, OK, 5.),
    (('ann', S('float'), (('val_range', 0, 5),)), 5.05, CE, None),
    (('ann', ('seq', 'Sequence', S('int')), (('len_range', 1, None),)), [], CE, None),
    (('ann', S('int'), (('Positive',),)), 5, OK, 5),
    (('ann', S('int'), (('Positive',),)), -5, CE, None),
    (S('rePattern'), 'abcde', OK, re.compile('abcde')),
    (S('Pattern[bytes]'), 'abcde', CE, None),
    (S('Pattern[bytes]'), b'abcde', OK, re.compile(b'abcde')),
    (S('Pattern[str]'), '(', CE, None),
    (S('datetime'), "2023-09-05 11:11:11", OK, datetime.datetime(2023, 9, 5, 11, 11, 11)),
    (S('time'), "11:11:11", OK, datetime.time(11, 11, 11)),
    (S('date'), "2023-09-05", OK, datetime.date(2023, 9, 5)),
    (S('date'), "11:11:11", CE, None),
    (S('date'), "09/05/2023", CE, None),
    (S('time'), "2023-09-05 11:11:11", CE, None),
    (S('Decimal'), 5, OK, decimal.Decimal('5')),
    (S('Decimal'), '5.123', OK, decimal.Decimal('5.123')),
    (S('Decimal'), 1.1, OK, decimal.Decimal(1.1)),
    (S('Fraction'), '1/5', OK, fractions.Fraction(1, 5)),
    (S('Fraction'), 5.1345, OK, fractions.Fraction(5.1345)),
    (S('Fraction'), '1/0', CE, None),
    (S('PurePosixPath'), "/test/path", OK, pathlib.PurePosixPath("/test/path")),
    (S('PathLike'), "test/path", OK, pathlib.PurePath("test/path")),
    (('sub', 'int'), '5', CE, None),
    (('vol', S('int')), 5, OK, tg.VolImage(True, 5)),
    (('vol', S('int')), (5, 6, 7), OK, tg.VolImage(False, [5, 6, 7])),
    (('vol', S('int')), (5, 6.5, 7), CE, None),
    (('vol', S('int')), {}, CE, None),
]

_DONE = [False]


def run() -> None:
    if _DONE[0]:
        return
    _DONE[0] = True
    for (spec, v, want, img) in EXAMPLES:
        nd = tg.node(spec)
        r = nd.ref(v)
        got = OK if isinstance(r, tg.Acc) else CE if isinstance(r, tg.Rej) else 'unspecified'
        if got != want:
            raise HarnessError(f"reference self-check: {nd.render()} on {v!r}: the repository's tests pin {want}, the reference says {got}")
        if want == OK and img is not None:
            d = same(r.image, img) if not isinstance(img, tg.VolImage) else same(r.image, img)
            if d is not None:
                raise HarnessError(f"reference self-check: {nd.render()} on {v!r}: reference image {r.image!r} differs from the pinned result {img!r}: {d}")
