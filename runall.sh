#!/bin/sh
# usage: ./runall.sh [tier] [seed...]   - run every registered check, print one line each
cd "$(dirname "$0")" || exit 2
TIER="${1:-quick}"; shift
SEEDS="${*:-1}"
for sd in $SEEDS; do
  for p in C01 C02 C03 C04 C05 C06 C07 C08 C09 C10 C11 C12 C13 C14 C15 C16 C17 C18 C19 C20; do
    out=$(VERIF_SEED=$sd ./check $p "$TIER" 2>&1); rc=$?
    echo "rc=$rc $(echo "$out" | grep -v '^KNOWN' | tail -1 | cut -c1-200)"
    if [ $rc -ne 0 ]; then echo "$out" | grep -B1 -A6 "failure key\|HARNESS" | head -40 | cut -c1-1200; fi
  done
done
