#!/bin/sh
# Offline setup: hypothesis must be importable in /venv (it normally already is);
# atheris (thorough tier of C03/C04 only) goes into /verif/.deps.
cd "$(dirname "$0")" || exit 1
WH=/opt/veriftools/wheels
/venv/bin/python -c "import hypothesis" 2>/dev/null || \
  /venv/bin/pip install --no-index --find-links "$WH" hypothesis || exit 1
mkdir -p .deps
/venv/bin/python -c "import sys; sys.path.insert(0, '.deps'); import atheris" 2>/dev/null || \
  /venv/bin/pip install --no-index --find-links "$WH" --target .deps atheris >/dev/null 2>&1 || \
  echo "note: atheris not installable; thorough tier of C03/C04 will run pure Hypothesis"
/venv/bin/python -c "import hypothesis, pane, yaml, numpy; print('setup ok: hypothesis', hypothesis.__version__)"
